#!/bin/bash
# Runs the repository's test suite with the verif guard OFF and compares with BASELINE.json.
export GOFLAGS=-mod=mod GOPROXY=off GOSUMDB=off GOTOOLCHAIN=local
T=$(mktemp -d /tmp/verif-baseline.XXXXXX)
trap 'rm -rf "$T"' EXIT
cd /repo && go test -json -vet=off -count=1 -timeout 25m ./... > "$T/out.json" 2> "$T/err.txt"
python3 - "$T/out.json" <<'P'
import json,sys
ok=set()
for l in open(sys.argv[1]):
    try: e=json.loads(l)
    except Exception: continue
    if e.get('Test') and e.get('Action')=='pass': ok.add(e['Package']+'::'+e['Test'])
b=json.load(open('/root/.vp/BASELINE.json'))
missing=sorted(set(b['stable_pass'])-ok)
print('stable_pass expected:',len(b['stable_pass']),'passing now:',len(set(b['stable_pass'])&ok))
if missing:
    print('MISSING:',missing); sys.exit(1)
print('baseline OK (guard off)')
P
