// Package thunk holds typed call thunks and typed replacement factories for the zoo functions.
package thunk

import (
	"reflect"
	"runtime"
	"sync"
)

// Call forms.
const (
	FormDirect      = iota // direct CALL from another package
	FormValue              // through a stored function value
	FormDefer              // from a deferred closure
	FormGo                 // on a fresh goroutine (small stack)
	FormOnce               // from library code (sync.Once.Do callback)
	FormDeferDirect        // `defer f(args)`: results are not observable
	FormPlaceholder        // call the origin placeholder variable
	NumForms
)

// FormNames for logs.
var FormNames = [...]string{"direct", "value", "defer", "go", "once", "deferdirect", "placeholder"}

// Rec records what a replacement saw.
type Rec struct {
	mu       sync.Mutex
	Results  []interface{} // scripted results returned by the replacement
	IsOrigin bool          // origin-calling replacement: stays "inside" until OriginDone
	ID       int
	slots    map[int]*recSlot
}

// recSlot is the per-caller part of a recorder: calls of one replacement made by different
// simulated tasks may overlap (a task can be parked inside goom's debug wrapper, after the
// replacement returned and before the call returns), so each task sees only its own calls.
type recSlot struct {
	calls     int
	lastArgs  []interface{}
	originRes []interface{} // results of the origin call made by an origin-calling replacement
	originN   int
	depth     int // current nesting (re-entry detector)
	maxDepth  int
}

// SlotFn identifies the caller (the simulator's current task); nil means one slot for everybody.
var SlotFn func() int

func (r *Rec) slot() *recSlot {
	k := 0
	if SlotFn != nil {
		k = SlotFn()
	}
	if r.slots == nil {
		r.slots = map[int]*recSlot{}
	}
	s := r.slots[k]
	if s == nil {
		s = &recSlot{}
		r.slots[k] = s
	}
	return s
}

// Enter is called by a generated replacement on entry.
func (r *Rec) Enter(args []interface{}) []interface{} {
	r.mu.Lock()
	defer r.mu.Unlock()
	s := r.slot()
	s.calls++
	s.lastArgs = args
	s.depth++
	if s.depth > s.maxDepth {
		s.maxDepth = s.depth
	}
	if !r.IsOrigin { // plain replacement: leaves immediately
		s.depth--
	}
	return r.Results
}

// OriginDone is called by an origin-calling replacement after the origin returned.
func (r *Rec) OriginDone(res []interface{}) {
	r.mu.Lock()
	defer r.mu.Unlock()
	s := r.slot()
	s.originRes = res
	s.originN++
	s.depth--
}

// Snapshot returns (calls, last args, origin results) of the calling task and resets them.
func (r *Rec) Snapshot() (int, []interface{}, []interface{}) {
	r.mu.Lock()
	defer r.mu.Unlock()
	s := r.slot()
	c, a, o := s.calls, s.lastArgs, s.originRes
	s.calls, s.lastArgs, s.originRes = 0, nil, nil
	return c, a, o
}

// ResetDepth clears the re-entry detector.
func (r *Rec) ResetDepth() {
	r.mu.Lock()
	r.slot().maxDepth = 0
	r.mu.Unlock()
}

// GetMaxDepth reads the re-entry detector.
func (r *Rec) GetMaxDepth() int {
	r.mu.Lock()
	defer r.mu.Unlock()
	return r.slot().maxDepth
}

// Fn describes one zoo function.
type Fn struct {
	Idx        int
	Pkg, Local string
	Name       string // full symbol name
	Fn         interface{}
	Typ        reflect.Type
	Entry      uintptr
	Ph         interface{} // pointer to the placeholder variable
	PhEntry    uintptr     // code address of the placeholder body (before any re-pointing)
	Call       func(form int, a []interface{}) []interface{}
	MkCb       func(rec *Rec) interface{}
	MkOriginCb func(rec *Rec) interface{}
	// MkOriginLocal: the same, bound to a fresh placeholder VARIABLE (a copy of the placeholder's
	// func value) that only the callback references; returns (callback, pointer for Origin())
	MkOriginLocal func(rec *Rec) (interface{}, interface{})
	Leaf          int // k+1 for leaf function k (no counter, reference = fn.LeafRef), 0 otherwise
}

// Funcs is the registry, in global index order.
var Funcs []*Fn

func finishInit() {
	for _, f := range Funcs {
		v := reflect.ValueOf(f.Fn)
		f.Typ = v.Type()
		f.Entry = v.Pointer()
		f.Name = runtime.FuncForPC(f.Entry).Name()
		f.PhEntry = reflect.ValueOf(f.Ph).Elem().Pointer()
	}
}
