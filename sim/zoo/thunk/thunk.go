// Package thunk holds typed call thunks and typed replacement factories for the zoo functions.
package thunk

import (
	"reflect"
	"runtime"
	"sync"
)

// Call forms.
const (
	FormDirect      = iota // direct CALL from another package
	FormValue              // through a stored function value
	FormDefer              // from a deferred closure
	FormGo                 // on a fresh goroutine (small stack)
	FormOnce               // from library code (sync.Once.Do callback)
	FormDeferDirect        // `defer f(args)`: results are not observable
	FormPlaceholder        // call the origin placeholder variable
	NumForms
)

// FormNames for logs.
var FormNames = [...]string{"direct", "value", "defer", "go", "once", "deferdirect", "placeholder"}

// Rec records what a replacement saw.
type Rec struct {
	mu        sync.Mutex
	Calls     int
	LastArgs  []interface{}
	Results   []interface{} // scripted results returned by the replacement
	OriginRes []interface{} // results of the origin call made by an origin-calling replacement
	OriginN   int
	IsOrigin  bool // origin-calling replacement: stays "inside" until OriginDone
	Depth     int  // current nesting (re-entry detector)
	MaxDepth  int
	ID        int
}

// Enter is called by a generated replacement on entry.
func (r *Rec) Enter(args []interface{}) []interface{} {
	r.mu.Lock()
	defer r.mu.Unlock()
	r.Calls++
	r.LastArgs = args
	r.Depth++
	if r.Depth > r.MaxDepth {
		r.MaxDepth = r.Depth
	}
	if !r.IsOrigin { // plain replacement: leaves immediately
		r.Depth--
	}
	return r.Results
}

// OriginDone is called by an origin-calling replacement after the origin returned.
func (r *Rec) OriginDone(res []interface{}) {
	r.mu.Lock()
	defer r.mu.Unlock()
	r.OriginRes = res
	r.OriginN++
	r.Depth--
}

// Snapshot returns (calls, last args, maxdepth) and resets the per-call fields.
func (r *Rec) Snapshot() (int, []interface{}, []interface{}) {
	r.mu.Lock()
	defer r.mu.Unlock()
	c, a, o := r.Calls, r.LastArgs, r.OriginRes
	r.Calls, r.LastArgs, r.OriginRes = 0, nil, nil
	return c, a, o
}

// ResetDepth clears the re-entry detector.
func (r *Rec) ResetDepth() {
	r.mu.Lock()
	r.MaxDepth = 0
	r.mu.Unlock()
}

// GetMaxDepth reads the re-entry detector.
func (r *Rec) GetMaxDepth() int {
	r.mu.Lock()
	defer r.mu.Unlock()
	return r.MaxDepth
}

// Fn describes one zoo function.
type Fn struct {
	Idx        int
	Pkg, Local string
	Name       string // full symbol name
	Fn         interface{}
	Typ        reflect.Type
	Entry      uintptr
	Ph         interface{} // pointer to the placeholder variable
	PhEntry    uintptr     // code address of the placeholder body (before any re-pointing)
	Call       func(form int, a []interface{}) []interface{}
	MkCb       func(rec *Rec) interface{}
	MkOriginCb func(rec *Rec) interface{}
	Leaf       int // k+1 for leaf function k (no counter, reference = fn.LeafRef), 0 otherwise
}

// Funcs is the registry, in global index order.
var Funcs []*Fn

func finishInit() {
	for _, f := range Funcs {
		v := reflect.ValueOf(f.Fn)
		f.Typ = v.Type()
		f.Entry = v.Pointer()
		f.Name = runtime.FuncForPC(f.Entry).Name()
		f.PhEntry = reflect.ValueOf(f.Ph).Elem().Pointer()
	}
}
