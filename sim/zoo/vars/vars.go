// Package vars is the variable zoo: exported and unexported package variables of every kind with
// accessor functions compiled in this package.
package vars

import (
	"reflect"

	"github.com/tencent/goom/verifsim/zoo/fn"
)

// Exported variables.
var (
	VInt      = 7
	VInt8     = int8(-3)
	VUint64   = uint64(1 << 60)
	VFloat    = 2.5
	VBool     = true
	VStr      = "orig"
	VSlice    = []int{1, 2, 3}
	VNilSlice []string
	VMap      = map[string]int{"a": 1}
	VStruct   = fn.S3{A: 1, B: 2.5, C: "s3"}
	VBig      = fn.S9{A: 1, I: 9}
	VArr      = [4]int{4, 3, 2, 1}
	VPtr      = &fn.S2{A: 1, B: 2}
	VNilPtr   *fn.S2
	VFunc                 = fn.FuncTable(0)
	VIface    interface{} = 5
	VErr      error       = fn.ErrTable(0)
	VNilErr   error
	VNilIface interface{}
	VChan     = make(chan int, 1)
)

// Unexported variables (addressed by "package.name").
var (
	uInt    = 11
	uStr    = "uorig"
	uStruct = fn.S2{A: 3, B: 4}
	uMap    = map[string]int{"u": 2}
	uPtr    = &fn.S3{A: 5}
	uSlice  = []string{"x", "y"}
	uFloat  = 1.25
)

// Var describes one zoo variable.
type Var struct {
	Name string
	Ptr  interface{} // pointer to the variable
	Path string      // non-empty for unexported variables: symbol path
	Get  func() interface{}
	Typ  reflect.Type
}

const pkg = "github.com/tencent/goom/verifsim/zoo/vars."

// Vars is the registry.
var Vars = []*Var{
	{Name: "VInt", Ptr: &VInt, Get: func() interface{} { return getVInt() }},
	{Name: "VInt8", Ptr: &VInt8, Get: func() interface{} { return getVInt8() }},
	{Name: "VUint64", Ptr: &VUint64, Get: func() interface{} { return getVUint64() }},
	{Name: "VFloat", Ptr: &VFloat, Get: func() interface{} { return getVFloat() }},
	{Name: "VBool", Ptr: &VBool, Get: func() interface{} { return getVBool() }},
	{Name: "VStr", Ptr: &VStr, Get: func() interface{} { return getVStr() }},
	{Name: "VSlice", Ptr: &VSlice, Get: func() interface{} { return getVSlice() }},
	{Name: "VNilSlice", Ptr: &VNilSlice, Get: func() interface{} { return getVNilSlice() }},
	{Name: "VMap", Ptr: &VMap, Get: func() interface{} { return getVMap() }},
	{Name: "VStruct", Ptr: &VStruct, Get: func() interface{} { return getVStruct() }},
	{Name: "VBig", Ptr: &VBig, Get: func() interface{} { return getVBig() }},
	{Name: "VArr", Ptr: &VArr, Get: func() interface{} { return getVArr() }},
	{Name: "VPtr", Ptr: &VPtr, Get: func() interface{} { return getVPtr() }},
	{Name: "VNilPtr", Ptr: &VNilPtr, Get: func() interface{} { return getVNilPtr() }},
	{Name: "VFunc", Ptr: &VFunc, Get: func() interface{} { return getVFunc() }},
	{Name: "VIface", Ptr: &VIface, Get: func() interface{} { return getVIface() }},
	{Name: "VErr", Ptr: &VErr, Get: func() interface{} { return getVErr() }},
	{Name: "VNilErr", Ptr: &VNilErr, Get: func() interface{} { return getVNilErr() }},
	{Name: "VNilIface", Ptr: &VNilIface, Get: func() interface{} { return getVNilIface() }},
	{Name: "VChan", Ptr: &VChan, Get: func() interface{} { return getVChan() }},
	{Name: "uInt", Ptr: &uInt, Path: pkg + "uInt", Get: func() interface{} { return getUInt() }},
	{Name: "uStr", Ptr: &uStr, Path: pkg + "uStr", Get: func() interface{} { return getUStr() }},
	{Name: "uStruct", Ptr: &uStruct, Path: pkg + "uStruct", Get: func() interface{} { return getUStruct() }},
	{Name: "uMap", Ptr: &uMap, Path: pkg + "uMap", Get: func() interface{} { return getUMap() }},
	{Name: "uPtr", Ptr: &uPtr, Path: pkg + "uPtr", Get: func() interface{} { return getUPtr() }},
	{Name: "uSlice", Ptr: &uSlice, Path: pkg + "uSlice", Get: func() interface{} { return getUSlice() }},
	{Name: "uFloat", Ptr: &uFloat, Path: pkg + "uFloat", Get: func() interface{} { return getUFloat() }},
}

func init() {
	for _, v := range Vars {
		v.Typ = reflect.TypeOf(v.Ptr).Elem()
	}
}

//go:noinline
func getVInt() int { return VInt }

//go:noinline
func getVInt8() int8 { return VInt8 }

//go:noinline
func getVUint64() uint64 { return VUint64 }

//go:noinline
func getVFloat() float64 { return VFloat }

//go:noinline
func getVBool() bool { return VBool }

//go:noinline
func getVStr() string { return VStr }

//go:noinline
func getVSlice() []int { return VSlice }

//go:noinline
func getVNilSlice() []string { return VNilSlice }

//go:noinline
func getVMap() map[string]int { return VMap }

//go:noinline
func getVStruct() fn.S3 { return VStruct }

//go:noinline
func getVBig() fn.S9 { return VBig }

//go:noinline
func getVArr() [4]int { return VArr }

//go:noinline
func getVPtr() *fn.S2 { return VPtr }

//go:noinline
func getVNilPtr() *fn.S2 { return VNilPtr }

//go:noinline
func getVFunc() func(int) int { return VFunc }

//go:noinline
func getVIface() interface{} { return VIface }

//go:noinline
func getVErr() error { return VErr }

//go:noinline
func getVNilErr() error { return VNilErr }

//go:noinline
func getVNilIface() interface{} { return VNilIface }

//go:noinline
func getVChan() chan int { return VChan }

//go:noinline
func getUInt() int { return uInt }

//go:noinline
func getUStr() string { return uStr }

//go:noinline
func getUStruct() fn.S2 { return uStruct }

//go:noinline
func getUMap() map[string]int { return uMap }

//go:noinline
func getUPtr() *fn.S3 { return uPtr }

//go:noinline
func getUSlice() []string { return uSlice }

//go:noinline
func getUFloat() float64 { return uFloat }
