// Package ifc is the interface zoo: interfaces with 1..6 methods (declaration order differs from
// the sorted order, unexported and embedded methods), real implementations, variables of each
// type and typed invokers / replacement factories.
package ifc

import (
	"reflect"
	"sync"

	mocker "github.com/tencent/goom"
	"github.com/tencent/goom/verifsim/zoo/fn"
)

// I1 has a single method.
type I1 interface {
	Get(a int) int
}

// I3 declares its methods unsorted and has an unexported one.
type I3 interface {
	Zeta(a int, s string) string
	Alpha() int
	mid(x float64) float64
}

// I6 has six methods in reverse alphabetical declaration order.
type I6 interface {
	F(a int) int
	E(s string) string
	D(a, b int) (int, error)
	C()
	B(x fn.S3) fn.S3
	A(p *int) *int
}

// IW has methods whose receiver plus parameters fill every integer argument register (9 words), a
// mixed int / float one, and one that spills to the stack.
type IW interface {
	Wide(a1, a2, a3, a4, a5, a6, a7, a8 int) int
	Str4(a, b, c, d string) string
	Mix(a int, x float64, b int, y float64, s string, z float64) float64
	Spill(a1, a2, a3, a4, a5, a6, a7, a8, a9, a10, a11 int) int
}

// Closer is embedded into Emb.
type Closer interface {
	Close() error
}

// Emb embeds two interfaces and adds a method.
type Emb interface {
	I1
	Closer
	Name() string
}

// Impl is a real implementation of every zoo interface.
type Impl struct{ Tag int }

func (i *Impl) Get(a int) int               { return i.Tag + a }
func (i *Impl) Zeta(a int, s string) string { return s }
func (i *Impl) Alpha() int                  { return i.Tag }
func (i *Impl) mid(x float64) float64       { return x }
func (i *Impl) F(a int) int                 { return a }
func (i *Impl) E(s string) string           { return s }
func (i *Impl) D(a, b int) (int, error)     { return a + b, nil }
func (i *Impl) C()                          {}
func (i *Impl) B(x fn.S3) fn.S3             { return x }
func (i *Impl) A(p *int) *int               { return p }
func (i *Impl) Close() error                { return nil }
func (i *Impl) Wide(a1, a2, a3, a4, a5, a6, a7, a8 int) int {
	return a1 + a8
}
func (i *Impl) Str4(a, b, c, d string) string { return a + d }
func (i *Impl) Mix(a int, x float64, b int, y float64, s string, z float64) float64 {
	return x + z
}
func (i *Impl) Spill(a1, a2, a3, a4, a5, a6, a7, a8, a9, a10, a11 int) int { return a1 + a11 }
func (i *Impl) Name() string                                               { return "impl" }

// Variables: three per interface type, some pre-loaded.
var (
	V1a, V1b, V1c I1
	V3a, V3b, V3c I3
	V6a, V6b, V6c I6
	VEa, VEb, VEc Emb
	VWa, VWb, VWc IW
)

// ResetVars puts the variables into their initial state.
func ResetVars() {
	V1a, V1b, V1c = nil, &Impl{Tag: 1}, nil
	V3a, V3b, V3c = nil, nil, &Impl{Tag: 3}
	V6a, V6b, V6c = &Impl{Tag: 6}, nil, nil
	VEa, VEb, VEc = nil, &Impl{Tag: 7}, nil
	VWa, VWb, VWc = nil, nil, &Impl{Tag: 8}
}

func init() { ResetVars() }

// Assign stores a real implementation (or nil) into the variable v points to, the way user code
// would between two mocks.
func Assign(v interface{}, impl bool) {
	rv := reflect.ValueOf(v).Elem()
	if impl {
		rv.Set(reflect.ValueOf(&Impl{Tag: 99}))
	} else {
		rv.Set(reflect.Zero(rv.Type()))
	}
}

// Rec records what an interface-method replacement saw.
type Rec struct {
	mu      sync.Mutex
	Calls   int
	Args    []interface{}
	CtxOK   bool
	Results []interface{}
}

func (r *Rec) enter(ctx *mocker.IContext, args ...interface{}) []interface{} {
	r.mu.Lock()
	defer r.mu.Unlock()
	r.Calls++
	r.Args = args
	r.CtxOK = ctx != nil
	return r.Results
}

// Take returns and clears the record.
func (r *Rec) Take() (int, []interface{}, bool) {
	r.mu.Lock()
	defer r.mu.Unlock()
	c, a, ok := r.Calls, r.Args, r.CtxOK
	r.Calls, r.Args = 0, nil
	return c, a, ok
}

// Method describes one interface method.
type Method struct {
	Name  string
	Mk    func(rec *Rec) interface{}                         // typed replacement (first parameter *mocker.IContext)
	Call  func(v interface{}, a []interface{}) []interface{} // call through the variable (v = pointer to the variable)
	Typ   reflect.Type                                       // type of the replacement
	Index int                                                // position in the interface's method table (filled at init)
}

// Iface describes one zoo interface.
type Iface struct {
	Name    string
	Typ     reflect.Type
	Vars    []interface{} // pointers to the variables
	Methods []*Method
}

func as[T any](v interface{}) T { return fn.As[T](v) }

// Ifaces is the registry.
var Ifaces = []*Iface{
	{Name: "I1", Typ: reflect.TypeOf((*I1)(nil)).Elem(), Vars: []interface{}{&V1a, &V1b, &V1c}, Methods: []*Method{
		{Name: "Get", Mk: func(r *Rec) interface{} {
			return func(c *mocker.IContext, a int) int { return as[int](r.enter(c, a)[0]) }
		}, Call: func(v interface{}, a []interface{}) []interface{} {
			return []interface{}{(*v.(*I1)).Get(as[int](a[0]))}
		}},
	}},
	{Name: "I3", Typ: reflect.TypeOf((*I3)(nil)).Elem(), Vars: []interface{}{&V3a, &V3b, &V3c}, Methods: []*Method{
		{Name: "Zeta", Mk: func(r *Rec) interface{} {
			return func(c *mocker.IContext, a int, s string) string { return as[string](r.enter(c, a, s)[0]) }
		}, Call: func(v interface{}, a []interface{}) []interface{} {
			return []interface{}{(*v.(*I3)).Zeta(as[int](a[0]), as[string](a[1]))}
		}},
		{Name: "Alpha", Mk: func(r *Rec) interface{} {
			return func(c *mocker.IContext) int { return as[int](r.enter(c)[0]) }
		}, Call: func(v interface{}, a []interface{}) []interface{} {
			return []interface{}{(*v.(*I3)).Alpha()}
		}},
		{Name: "mid", Mk: func(r *Rec) interface{} {
			return func(c *mocker.IContext, x float64) float64 { return as[float64](r.enter(c, x)[0]) }
		}, Call: func(v interface{}, a []interface{}) []interface{} {
			return []interface{}{(*v.(*I3)).mid(as[float64](a[0]))}
		}},
	}},
	{Name: "I6", Typ: reflect.TypeOf((*I6)(nil)).Elem(), Vars: []interface{}{&V6a, &V6b, &V6c}, Methods: []*Method{
		{Name: "F", Mk: func(r *Rec) interface{} {
			return func(c *mocker.IContext, a int) int { return as[int](r.enter(c, a)[0]) }
		}, Call: func(v interface{}, a []interface{}) []interface{} {
			return []interface{}{(*v.(*I6)).F(as[int](a[0]))}
		}},
		{Name: "E", Mk: func(r *Rec) interface{} {
			return func(c *mocker.IContext, s string) string { return as[string](r.enter(c, s)[0]) }
		}, Call: func(v interface{}, a []interface{}) []interface{} {
			return []interface{}{(*v.(*I6)).E(as[string](a[0]))}
		}},
		{Name: "D", Mk: func(r *Rec) interface{} {
			return func(c *mocker.IContext, a, b int) (int, error) {
				res := r.enter(c, a, b)
				return as[int](res[0]), as[error](res[1])
			}
		}, Call: func(v interface{}, a []interface{}) []interface{} {
			x, err := (*v.(*I6)).D(as[int](a[0]), as[int](a[1]))
			return []interface{}{x, err}
		}},
		{Name: "C", Mk: func(r *Rec) interface{} {
			return func(c *mocker.IContext) { r.enter(c) }
		}, Call: func(v interface{}, a []interface{}) []interface{} {
			(*v.(*I6)).C()
			return []interface{}{}
		}},
		{Name: "B", Mk: func(r *Rec) interface{} {
			return func(c *mocker.IContext, x fn.S3) fn.S3 { return as[fn.S3](r.enter(c, x)[0]) }
		}, Call: func(v interface{}, a []interface{}) []interface{} {
			return []interface{}{(*v.(*I6)).B(as[fn.S3](a[0]))}
		}},
		{Name: "A", Mk: func(r *Rec) interface{} {
			return func(c *mocker.IContext, p *int) *int { return as[*int](r.enter(c, p)[0]) }
		}, Call: func(v interface{}, a []interface{}) []interface{} {
			return []interface{}{(*v.(*I6)).A(as[*int](a[0]))}
		}},
	}},
	{Name: "Emb", Typ: reflect.TypeOf((*Emb)(nil)).Elem(), Vars: []interface{}{&VEa, &VEb, &VEc}, Methods: []*Method{
		{Name: "Get", Mk: func(r *Rec) interface{} {
			return func(c *mocker.IContext, a int) int { return as[int](r.enter(c, a)[0]) }
		}, Call: func(v interface{}, a []interface{}) []interface{} {
			return []interface{}{(*v.(*Emb)).Get(as[int](a[0]))}
		}},
		{Name: "Close", Mk: func(r *Rec) interface{} {
			return func(c *mocker.IContext) error { return as[error](r.enter(c)[0]) }
		}, Call: func(v interface{}, a []interface{}) []interface{} {
			return []interface{}{(*v.(*Emb)).Close()}
		}},
		{Name: "Name", Mk: func(r *Rec) interface{} {
			return func(c *mocker.IContext) string { return as[string](r.enter(c)[0]) }
		}, Call: func(v interface{}, a []interface{}) []interface{} {
			return []interface{}{(*v.(*Emb)).Name()}
		}},
	}},
	{Name: "IW", Typ: reflect.TypeOf((*IW)(nil)).Elem(), Vars: []interface{}{&VWa, &VWb, &VWc}, Methods: []*Method{
		{Name: "Wide", Mk: func(r *Rec) interface{} {
			return func(c *mocker.IContext, a1, a2, a3, a4, a5, a6, a7, a8 int) int {
				return as[int](r.enter(c, a1, a2, a3, a4, a5, a6, a7, a8)[0])
			}
		}, Call: func(v interface{}, a []interface{}) []interface{} {
			return []interface{}{(*v.(*IW)).Wide(as[int](a[0]), as[int](a[1]), as[int](a[2]), as[int](a[3]), as[int](a[4]), as[int](a[5]), as[int](a[6]), as[int](a[7]))}
		}},
		{Name: "Str4", Mk: func(r *Rec) interface{} {
			return func(c *mocker.IContext, a, b, cc, d string) string { return as[string](r.enter(c, a, b, cc, d)[0]) }
		}, Call: func(v interface{}, a []interface{}) []interface{} {
			return []interface{}{(*v.(*IW)).Str4(as[string](a[0]), as[string](a[1]), as[string](a[2]), as[string](a[3]))}
		}},
		{Name: "Mix", Mk: func(r *Rec) interface{} {
			return func(c *mocker.IContext, a int, x float64, b int, y float64, s string, z float64) float64 {
				return as[float64](r.enter(c, a, x, b, y, s, z)[0])
			}
		}, Call: func(v interface{}, a []interface{}) []interface{} {
			return []interface{}{(*v.(*IW)).Mix(as[int](a[0]), as[float64](a[1]), as[int](a[2]), as[float64](a[3]), as[string](a[4]), as[float64](a[5]))}
		}},
		{Name: "Spill", Mk: func(r *Rec) interface{} {
			return func(c *mocker.IContext, a1, a2, a3, a4, a5, a6, a7, a8, a9, a10, a11 int) int {
				return as[int](r.enter(c, a1, a2, a3, a4, a5, a6, a7, a8, a9, a10, a11)[0])
			}
		}, Call: func(v interface{}, a []interface{}) []interface{} {
			return []interface{}{(*v.(*IW)).Spill(as[int](a[0]), as[int](a[1]), as[int](a[2]), as[int](a[3]), as[int](a[4]), as[int](a[5]), as[int](a[6]), as[int](a[7]), as[int](a[8]), as[int](a[9]), as[int](a[10]))}
		}},
	}},
}

func init() {
	for _, it := range Ifaces {
		for _, m := range it.Methods {
			m.Typ = reflect.TypeOf(m.Mk(&Rec{}))
			for i := 0; i < it.Typ.NumMethod(); i++ {
				if it.Typ.Method(i).Name == m.Name {
					m.Index = i
				}
			}
		}
	}
}
