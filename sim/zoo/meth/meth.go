// Package meth is the method zoo: exported and unexported methods, pointer and value receivers,
// method names that are prefixes of each other, an unexported struct type, and generic types with
// instantiations of equal (string / MyStr) and different (int) GC shape.
package meth

import (
	"reflect"
	"runtime"

	"github.com/tencent/goom/verifsim/zoo/fn"
	"github.com/tencent/goom/verifsim/zoo/thunk"
)

// T1 has exported and unexported methods with both receiver kinds.
type T1 struct {
	A int
	B string
}

// T3 has methods with the same names as T1's.
type T3 struct{ X float64 }

type t2 struct{ X int }

// GT is a generic type; the zoo instantiates it for string, fn.MyStr (same GC shape) and int.
type GT[T any] struct{ V T }

// gtIndex maps (instantiation, method) to the zoo index of that method.
func gtIndex(g interface{}, name string) int {
	inst := 0
	switch g.(type) {
	case *GT[string]:
		inst = 0
	case *GT[fn.MyStr]:
		inst = 1
	case *GT[int]:
		inst = 2
	}
	switch name {
	case "Get":
		return 12 + inst
	case "Put":
		return []int{15, 15, 16}[inst]
	case "Zero":
		return 17 + inst
	default:
		return []int{20, 20, 21}[inst]
	}
}

// Get is a generic method with a parameter (result type is the type parameter).
//
//go:noinline
func (g *GT[T]) Get(a0 int) T {
	k := gtIndex(g, "Get")
	fn.Ran(Base + k)
	res := fn.Compute(Base+k, typs[k], []interface{}{g, a0})
	return fn.As[T](res[0])
}

// Put is a generic method whose parameter type is the type parameter.
//
//go:noinline
func (g *GT[T]) Put(a0 T) int {
	k := gtIndex(g, "Put")
	fn.Ran(Base + k)
	res := fn.Compute(Base+k, typs[k], []interface{}{g, a0})
	return fn.As[int](res[0])
}

// Zero is a parameterless generic method returning the type parameter.
//
//go:noinline
func (g *GT[T]) Zero() T {
	k := gtIndex(g, "Zero")
	fn.Ran(Base + k)
	res := fn.Compute(Base+k, typs[k], []interface{}{g})
	return fn.As[T](res[0])
}

// Len is a parameterless generic method returning an int.
//
//go:noinline
func (g *GT[T]) Len() int {
	k := gtIndex(g, "Len")
	fn.Ran(Base + k)
	res := fn.Compute(Base+k, typs[k], []interface{}{g})
	return fn.As[int](res[0])
}

// gvIndex maps (instantiation, value-receiver method) to the zoo index of that method.
func gvIndex(g interface{}, name string) int {
	_, isInt := g.(GT[int])
	switch {
	case name == "VZero":
		return 26
	case isInt:
		return 25
	}
	return 24
}

// VLen is a parameterless VALUE-receiver generic method (symbol pkg.GT[...].VLen, no parentheses).
//
//go:noinline
func (g GT[T]) VLen() int {
	k := gvIndex(g, "VLen")
	fn.Ran(Base + k)
	res := fn.Compute(Base+k, typs[k], []interface{}{g})
	return fn.As[int](res[0])
}

// VZero is a parameterless value-receiver generic method returning the type parameter.
//
//go:noinline
func (g GT[T]) VZero() T {
	k := gvIndex(g, "VZero")
	fn.Ran(Base + k)
	res := fn.Compute(Base+k, typs[k], []interface{}{g})
	return fn.As[T](res[0])
}

// Base is the global index of the first method.
const Base = 100

// PkgPath is the import path of this package.
const PkgPath = "github.com/tencent/goom/verifsim/zoo/meth"

// Method describes one zoo method.
type Method struct {
	Idx, Global int
	Recv        string // receiver type name as written
	RecvKind    string // ptr | val
	Name        string
	Lookup      string      // method | export | ustruct
	Inst        interface{} // an instance to hand to Struct()
	Expr        interface{} // the method expression (func with the receiver first)
	MV          interface{} // a method VALUE bound to Inst (symbol "...-fm"); nil where not applicable
	Typ         reflect.Type
	Entry       uintptr // address reflect reports for the method (a wrapper for generic instantiations)
	SymName     string
	Ph          interface{}
	PhEntry     uintptr
	Call        func(form int, a []interface{}) []interface{}
	MkCb        func(rec *thunk.Rec) interface{}
	MkOriginCb  func(rec *thunk.Rec) interface{}
	Sig         interface{} // a func value of the method's type (template for As)
	Generic     bool
}

// Methods is the registry.
var Methods []*Method

func finishInit() {
	for _, m := range Methods {
		v := reflect.ValueOf(m.Expr)
		m.Typ = v.Type()
		typs[m.Idx] = m.Typ
		m.Entry = v.Pointer()
		m.SymName = runtime.FuncForPC(m.Entry).Name()
		m.PhEntry = reflect.ValueOf(m.Ph).Elem().Pointer()
		m.Generic = len(m.Recv) > 2 && m.Recv[:3] == "GT["
	}
}
