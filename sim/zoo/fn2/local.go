package fn2

import "github.com/tencent/goom/verifsim/zoo/fn"

// localFoo has the same unexported name as a function in the harness package worlds/hist: a
// package override (Builder.Pkg) decides which of the two ExportFunc("localFoo") resolves to.
//
//go:noinline
func localFoo(a int) int {
	fn.Ran(91)
	return a*5 + 2
}

// CallLocalFoo calls this package's localFoo directly.
//
//go:noinline
func CallLocalFoo(a int) int { return localFoo(a) }

// PkgPath is the import path of this package.
const PkgPath = "github.com/tencent/goom/verifsim/zoo/fn2"
