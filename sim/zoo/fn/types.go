// Package fn is the function zoo: one //go:noinline function per ABI class. Every body bumps an
// "original ran" counter and derives all results from a digest of its arguments (Compute), so the
// reference behaviour of the un-mocked function is Compute itself.
package fn

import (
	"errors"
	"fmt"
	"math"
	"reflect"
	"sync/atomic"
	"unsafe"
)

// Struct / named types used by the zoo.
type (
	S1 struct{ A int }
	S2 struct{ A, B int }
	S3 struct {
		A int
		B float64
		C string
	}
	S4 struct{ A, B, C, D int64 }
	S5 struct{ A, B, C, D, E int64 }
	S9 struct{ A, B, C, D, E, F, G, H, I int64 }
	SF struct{ X, Y float64 }
	SM struct {
		A int8
		B float64
		C int16
		D string
	}
	MyInt int
	MyStr string
)

// Node is self-referential: rings through Next, and the unexported field self holds (inside an
// interface) a pointer to the node itself.
type Node struct {
	V    int
	Next *Node
	self interface{}
}

// NewRing builds a ring of 1..3 nodes from a digest; every node's self field points at itself.
func NewRing(d uint64) *Node {
	n := 1 + int(d%3)
	nodes := make([]*Node, n)
	for i := range nodes {
		nodes[i] = &Node{V: int((d >> (8 * uint(i))) % 1000)}
		nodes[i].self = nodes[i]
	}
	for i := range nodes {
		nodes[i].Next = nodes[(i+1)%n]
	}
	return nodes[0]
}

// Priv has only unexported fields, of the kinds a printer treats specially.
type Priv struct {
	a int
	s string
	p *int
	f func()
	e error
	n *Node
	m map[string]*Priv
}

// NewPriv builds a Priv from a digest.
func NewPriv(d uint64) Priv {
	v := Priv{a: int(d % 100000), s: fmt.Sprintf("priv%x", d%0xffff)}
	if d&1 == 0 {
		v.p = &intCells[d%8]
	}
	if d&2 == 0 {
		v.f = PhPad
	}
	switch d % 5 {
	case 0:
		v.e = (*PtrErr)(nil)
	case 1:
		v.e = ErrTable(int(d % 3))
	}
	if d&8 == 0 {
		v.n = NewRing(d >> 4)
	}
	if d&16 == 0 {
		v.m = map[string]*Priv{"k": nil}
	}
	return v
}

var (
	nodeT    = reflect.TypeOf(Node{})
	nodePtrT = reflect.TypeOf(&Node{})
	privT    = reflect.TypeOf(Priv{})
)

// Special reports whether values of type t are built by a constructor (types with unexported
// fields or cycles) and builds one from a digest.
func Special(t reflect.Type, d uint64) (reflect.Value, bool) {
	switch t {
	case nodePtrT:
		if d%7 == 0 {
			return reflect.Zero(t), true
		}
		return reflect.ValueOf(NewRing(d)), true
	case nodeT:
		return reflect.ValueOf(*NewRing(d)), true
	case privT:
		return reflect.ValueOf(NewPriv(d)), true
	}
	return reflect.Value{}, false
}

// PtrErr is an error implemented on a pointer receiver that dereferences it: a typed nil *PtrErr
// inside an error interface panics when Error() is called directly (fmt's %v recovers from that).
type PtrErr struct{ Msg string }

// Error implements error.
func (e *PtrErr) Error() string { return e.Msg }

// OrigRan counts executions of the original bodies, per caller slot: calls of one function made
// by different simulated tasks may overlap (a task can be parked inside goom's debug wrapper), and
// each task compares the counter before and after its own call.
var OrigRan [256][34]int64

// SlotFn identifies the caller (the simulator's current task, -1 outside a run); nil: one slot.
var SlotFn func() int

func slot() int {
	if SlotFn == nil {
		return 0
	}
	if k := SlotFn() + 1; k >= 0 && k < len(OrigRan[0]) {
		return k
	}
	return 0
}

// Ran bumps the counter of function k.
func Ran(k int) { atomic.AddInt64(&OrigRan[k][slot()], 1) }

// RanCount reads the calling task's counter of function k.
func RanCount(k int) int64 { return atomic.LoadInt64(&OrigRan[k][slot()]) }

// As converts an interface value to T, mapping a nil interface to T's zero value.
func As[T any](v interface{}) T {
	if v == nil {
		var z T
		return z
	}
	return v.(T)
}

//go:noinline
func PhPad() {}

var funcTable = []func(int) int{
	func(i int) int { return i + 1 },
	func(i int) int { return i * 2 },
	func(i int) int { return -i },
}

// FuncTable returns the i-th canonical func(int) int value.
func FuncTable(i int) func(int) int { return funcTable[i%len(funcTable)] }

func mix(a, b uint64) uint64 {
	x := a ^ (b + 0x9e3779b97f4a7c15 + (a << 6) + (a >> 2))
	x ^= x >> 30
	x *= 0xbf58476d1ce4e5b9
	x ^= x >> 27
	x *= 0x94d049bb133111eb
	x ^= x >> 31
	return x
}

// Digest folds a value into a digest (deep: pointers contribute their pointee, funcs and
// channels and unsafe pointers only their nil-ness).
func Digest(d uint64, v reflect.Value) uint64 { return digest(d, v, 0) }

func digest(d uint64, v reflect.Value, depth int) uint64 {
	if depth > 10 {
		return mix(d, 0xc1c1e) // cyclic structures: the walk is cut at a fixed depth
	}
	if !v.IsValid() {
		return mix(d, 0xdead)
	}
	switch v.Kind() {
	case reflect.Bool:
		if v.Bool() {
			return mix(d, 1)
		}
		return mix(d, 2)
	case reflect.Int, reflect.Int8, reflect.Int16, reflect.Int32, reflect.Int64:
		return mix(d, uint64(v.Int()))
	case reflect.Uint, reflect.Uint8, reflect.Uint16, reflect.Uint32, reflect.Uint64, reflect.Uintptr:
		return mix(d, v.Uint())
	case reflect.Float32:
		return mix(d, uint64(math.Float32bits(float32(v.Float()))))
	case reflect.Float64:
		return mix(d, math.Float64bits(v.Float()))
	case reflect.Complex128, reflect.Complex64:
		c := v.Complex()
		return mix(mix(d, math.Float64bits(real(c))), math.Float64bits(imag(c)))
	case reflect.String:
		s := v.String()
		d = mix(d, uint64(len(s)))
		for i := 0; i < len(s); i++ {
			d = mix(d, uint64(s[i]))
		}
		return d
	case reflect.Slice:
		if v.IsNil() {
			return mix(d, 0x511ce)
		}
		fallthrough
	case reflect.Array:
		d = mix(d, uint64(v.Len()))
		for i := 0; i < v.Len(); i++ {
			d = digest(d, v.Index(i), depth+1)
		}
		return d
	case reflect.Struct:
		for i := 0; i < v.NumField(); i++ {
			d = digest(d, v.Field(i), depth+1)
		}
		return d
	case reflect.Ptr:
		if v.IsNil() {
			return mix(d, 0x9717)
		}
		return digest(mix(d, 0x9718), v.Elem(), depth+1)
	case reflect.Interface:
		if v.IsNil() {
			return mix(d, 0x1face)
		}
		return digest(mix(d, 0x1facf), v.Elem(), depth+1)
	case reflect.Map:
		if v.IsNil() {
			return mix(d, 0x3a9)
		}
		// order independent
		var acc uint64
		it := v.MapRange()
		for it.Next() {
			acc += digest(digest(7, it.Key(), depth+1), it.Value(), depth+1)
		}
		return mix(mix(d, uint64(v.Len())), acc)
	case reflect.Func, reflect.Chan, reflect.UnsafePointer:
		if v.IsNil() || (v.Kind() == reflect.UnsafePointer && v.Pointer() == 0) {
			return mix(d, 0xf0)
		}
		return mix(d, 0xf1)
	}
	return mix(d, 0xbad)
}

var errTable = []error{errors.New("zoo error A"), errors.New("zoo error B"), fmt.Errorf("zoo error %d", 3)}

// ErrTable returns the i-th canonical error.
func ErrTable(i int) error { return errTable[i%len(errTable)] }

var intCells [8]int

// Derive builds a value of type t from a digest.
func Derive(t reflect.Type, d uint64) reflect.Value {
	if sv, ok := Special(t, d); ok {
		return sv
	}
	v := reflect.New(t).Elem()
	switch t.Kind() {
	case reflect.Bool:
		v.SetBool(d&1 == 1)
	case reflect.Int, reflect.Int8, reflect.Int16, reflect.Int32, reflect.Int64:
		v.SetInt(int64(d))
	case reflect.Uint, reflect.Uint8, reflect.Uint16, reflect.Uint32, reflect.Uint64, reflect.Uintptr:
		v.SetUint(d)
	case reflect.Float32, reflect.Float64:
		v.SetFloat(float64(int64(d%2000001)-1000000) / 8)
	case reflect.Complex64, reflect.Complex128:
		v.SetComplex(complex(float64(d%1000), float64((d>>10)%1000)))
	case reflect.String:
		v.SetString(fmt.Sprintf("r%x", d%0xfffff))
	case reflect.Slice:
		n := int(d % 4)
		s := reflect.MakeSlice(t, n, n)
		for i := 0; i < n; i++ {
			s.Index(i).Set(Derive(t.Elem(), mix(d, uint64(i))))
		}
		v.Set(s)
	case reflect.Array:
		for i := 0; i < t.Len(); i++ {
			v.Index(i).Set(Derive(t.Elem(), mix(d, uint64(i))))
		}
	case reflect.Struct:
		for i := 0; i < t.NumField(); i++ {
			v.Field(i).Set(Derive(t.Field(i).Type, mix(d, uint64(i)+100)))
		}
	case reflect.Ptr:
		if d%5 != 0 {
			p := reflect.New(t.Elem())
			p.Elem().Set(Derive(t.Elem(), mix(d, 77)))
			v.Set(p)
		}
	case reflect.Interface:
		if t.NumMethod() > 0 { // error
			if d%3 != 0 {
				v.Set(reflect.ValueOf(ErrTable(int(d % 7))))
			}
		} else {
			switch d % 4 {
			case 1:
				v.Set(reflect.ValueOf(int(d % 1000)))
			case 2:
				v.Set(reflect.ValueOf(fmt.Sprintf("i%d", d%1000)))
			case 3:
				v.Set(reflect.ValueOf(S2{int(d % 10), int(d % 11)}))
			}
		}
	case reflect.Map:
		if d%4 != 0 {
			m := reflect.MakeMap(t)
			for i := uint64(0); i < d%3; i++ {
				m.SetMapIndex(Derive(t.Key(), mix(d, i)), Derive(t.Elem(), mix(d, i+50)))
			}
			v.Set(m)
		}
	case reflect.Func:
		if d%3 != 0 && t == reflect.TypeOf(funcTable[0]) {
			v.Set(reflect.ValueOf(FuncTable(int(d % 5))))
		}
	case reflect.Chan:
		// nil
	case reflect.UnsafePointer:
		if d%2 == 0 {
			v.SetPointer(unsafe.Pointer(&intCells[d%8]))
		}
	}
	return v
}

// Compute is the reference behaviour of zoo function k: results as a function of the arguments.
func Compute(k int, typ reflect.Type, args []interface{}) []interface{} {
	d := mix(0x200, uint64(k))
	for i, a := range args {
		if a == nil {
			d = Digest(d, reflect.Zero(typ.In(i)))
		} else {
			d = Digest(d, reflect.ValueOf(a))
		}
	}
	out := make([]interface{}, typ.NumOut())
	for i := range out {
		out[i] = Derive(typ.Out(i), mix(d, uint64(i)+1)).Interface()
	}
	return out
}
