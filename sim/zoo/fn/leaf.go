package fn

// Leaf functions: tiny bodies without a stack-check prologue (a handful of bytes plus alignment
// padding). They cannot bump a counter without ceasing to be leaves, so their reference behaviour
// is given by LeafRef and "the original ran" is judged by the result alone.

//go:noinline
func Leaf0(a int) int { return a + 1 }

//go:noinline
func Leaf1(a, b int) int { return a*b + 7 }

//go:noinline
func Leaf2() int { return 42 }

//go:noinline
func Leaf3(s string) int { return len(s) }

//go:noinline
func Leaf4(a float64) float64 { return a * 2 }

//go:noinline
func Leaf5(a, b, c, d, e, f, g, h, i, j int) int { return j - a }

// LeafRef is the reference behaviour of leaf k.
func LeafRef(k int, a []interface{}) []interface{} {
	switch k {
	case 0:
		return []interface{}{As[int](a[0]) + 1}
	case 1:
		return []interface{}{As[int](a[0])*As[int](a[1]) + 7}
	case 2:
		return []interface{}{42}
	case 3:
		return []interface{}{len(As[string](a[0]))}
	case 4:
		return []interface{}{As[float64](a[0]) * 2}
	default:
		return []interface{}{As[int](a[9]) - As[int](a[0])}
	}
}

// Placeholders for the leaves.
var (
	PhLeaf0 = func(a int) (r int) {
		PhPad()
		PhPad()
		PhPad()
		PhPad()
		PhPad()
		PhPad()
		PhPad()
		PhPad()
		PhPad()
		PhPad()
		PhPad()
		PhPad()
		return
	}
	PhLeaf1 = func(a, b int) (r int) {
		PhPad()
		PhPad()
		PhPad()
		PhPad()
		PhPad()
		PhPad()
		PhPad()
		PhPad()
		PhPad()
		PhPad()
		PhPad()
		PhPad()
		return
	}
	PhLeaf2 = func() (r int) {
		PhPad()
		PhPad()
		PhPad()
		PhPad()
		PhPad()
		PhPad()
		PhPad()
		PhPad()
		PhPad()
		PhPad()
		PhPad()
		PhPad()
		return
	}
	PhLeaf3 = func(s string) (r int) {
		PhPad()
		PhPad()
		PhPad()
		PhPad()
		PhPad()
		PhPad()
		PhPad()
		PhPad()
		PhPad()
		PhPad()
		PhPad()
		PhPad()
		return
	}
	PhLeaf4 = func(a float64) (r float64) {
		PhPad()
		PhPad()
		PhPad()
		PhPad()
		PhPad()
		PhPad()
		PhPad()
		PhPad()
		PhPad()
		PhPad()
		PhPad()
		PhPad()
		return
	}
	PhLeaf5 = func(a, b, c, d, e, f, g, h, i, j int) (r int) {
		PhPad()
		PhPad()
		PhPad()
		PhPad()
		PhPad()
		PhPad()
		PhPad()
		PhPad()
		PhPad()
		PhPad()
		PhPad()
		PhPad()
		return
	}
)
