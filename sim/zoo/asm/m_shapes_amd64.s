// Entry shapes for world W-ORIGIN: the first instructions are exactly the cases goom's
// relocation arithmetic distinguishes. Every shape reads ·Input and stores its answer in ·Result.

#include "textflag.h"

// RIP-relative load (7) + CMP (4) + JE rel8 (2) = 13 bytes
TEXT ·ShapeJE(SB), NOSPLIT, $0-0
	MOVQ	·Input(SB), AX
	CMPQ	AX, $7
	JEQ	je_eq
	ADDQ	$1, AX
	MOVQ	AX, ·Result(SB)
	RET
je_eq:
	MOVQ	$-100, AX
	MOVQ	AX, ·Result(SB)
	RET

TEXT ·ShapeJBE(SB), NOSPLIT, $0-0
	MOVQ	·Input(SB), AX
	CMPQ	AX, $7
	JLS	jbe_le
	ADDQ	$2, AX
	MOVQ	AX, ·Result(SB)
	RET
jbe_le:
	MOVQ	$-200, AX
	ADDQ	·Input(SB), AX
	MOVQ	AX, ·Result(SB)
	RET

TEXT ·ShapeJG(SB), NOSPLIT, $0-0
	MOVQ	·Input(SB), AX
	CMPQ	AX, $7
	JGT	jg_gt
	ADDQ	$3, AX
	MOVQ	AX, ·Result(SB)
	RET
jg_gt:
	MOVQ	$-300, AX
	ADDQ	·Input(SB), AX
	MOVQ	AX, ·Result(SB)
	RET

// load (7) + ADD (4) + JMP rel8 (2) = 13 bytes
TEXT ·ShapeJMP(SB), NOSPLIT, $0-0
	MOVQ	·Input(SB), AX
	ADDQ	$3, AX
	JMP	jm_far
	MOVQ	$-1, AX
	MOVQ	AX, ·Result(SB)
	RET
jm_far:
	SUBQ	$1000, AX
	ADDQ	AX, AX
	MOVQ	AX, ·Result(SB)
	RET

TEXT ·ShapeJNE(SB), NOSPLIT, $0-0
	MOVQ	·Input(SB), AX
	CMPQ	AX, $7
	JNE	jne_ne
	ADDQ	$4, AX
	MOVQ	AX, ·Result(SB)
	RET
jne_ne:
	MOVQ	$400, AX
	ADDQ	·Input(SB), AX
	MOVQ	AX, ·Result(SB)
	RET

TEXT ·ShapeJL(SB), NOSPLIT, $0-0
	MOVQ	·Input(SB), AX
	CMPQ	AX, $7
	JLT	jl_lt
	ADDQ	$5, AX
	MOVQ	AX, ·Result(SB)
	RET
jl_lt:
	MOVQ	$500, AX
	ADDQ	·Input(SB), AX
	MOVQ	AX, ·Result(SB)
	RET

// loop whose back edge lands at offset 7, inside the first 13 bytes
TEXT ·ShapeBack(SB), NOSPLIT, $0-0
	MOVQ	·Input(SB), AX
bk_top:
	ADDQ	$1, AX
	CMPQ	AX, $10
	JLT	bk_top
	MOVQ	AX, ·Result(SB)
	RET

// LEA rip-relative (7) + load (3) + ADD (4) = 14 bytes
TEXT ·ShapeLEA(SB), NOSPLIT, $0-0
	LEAQ	·Input(SB), BX
	MOVQ	(BX), AX
	ADDQ	$5, AX
	MOVQ	AX, ·Result(SB)
	RET

// CMP rip-relative with trailing imm8 (8) + JE rel8 (2) + MOV imm (7) = 17 bytes
TEXT ·ShapeCMPM(SB), NOSPLIT, $0-0
	CMPQ	·Input(SB), $7
	JEQ	cm_eq
	MOVQ	$1, AX
	MOVQ	AX, ·Result(SB)
	RET
cm_eq:
	MOVQ	$-2, AX
	MOVQ	AX, ·Result(SB)
	RET

// store-immediate to rip-relative memory (11) + load (7) = 18 bytes
TEXT ·ShapeMOVI(SB), NOSPLIT, $0-0
	MOVQ	$0x11, ·Aux(SB)
	MOVQ	·Input(SB), AX
	ADDQ	·Aux(SB), AX
	MOVQ	AX, ·Result(SB)
	RET

// CALL rel32 (5) + load (7) + ADD (4) = 16 bytes
TEXT ·ShapeCALL(SB), NOSPLIT, $0-0
	CALL	·shapeHelper(SB)
	MOVQ	·Input(SB), AX
	ADDQ	$2, AX
	ADDQ	·Calls(SB), AX
	MOVQ	AX, ·Result(SB)
	RET

TEXT ·shapeHelper(SB), NOSPLIT, $0-0
	ADDQ	$1, ·Calls(SB)
	RET

// CMP mem,imm8 (8) + JEQ rel8 (2) + JMP rel8 (2) + load (7): the relocated block is 19 bytes and
// contains a short forward branch (JEQ) whose target is also inside the block, with a rel8 branch
// that leaves the block (and would have to be widened) in between. Refusal expected.
TEXT ·ShapeSkip(SB), NOSPLIT, $0-0
	CMPQ	·Input(SB), $0
	JEQ	sk_in
	JMP	sk_far
sk_in:
	MOVQ	·Input(SB), AX
	SUBQ	$600, AX
	MOVQ	AX, ·Result(SB)
	RET
sk_far:
	MOVQ	·Input(SB), AX
	ADDQ	$6, AX
	MOVQ	AX, ·Result(SB)
	RET

// load (7) + CMP (4) + JLE rel8 (2) = 13 bytes: a conditional branch goom's widening table does not
// know; refusal expected when the placeholder is out of rel8 range, never a different condition
TEXT ·ShapeJLE(SB), NOSPLIT, $0-0
	MOVQ	·Input(SB), AX
	CMPQ	AX, $7
	JLE	s12_t
	ADDQ	$20, AX
	MOVQ	AX, ·Result(SB)
	RET
s12_t:
	MOVQ	$-2000, AX
	ADDQ	·Input(SB), AX
	MOVQ	AX, ·Result(SB)
	RET

// load (7) + CMP (4) + JGE rel8 (2) = 13 bytes: a conditional branch goom's widening table does not
// know; refusal expected when the placeholder is out of rel8 range, never a different condition
TEXT ·ShapeJGE(SB), NOSPLIT, $0-0
	MOVQ	·Input(SB), AX
	CMPQ	AX, $7
	JGE	s13_t
	ADDQ	$21, AX
	MOVQ	AX, ·Result(SB)
	RET
s13_t:
	MOVQ	$-2100, AX
	ADDQ	·Input(SB), AX
	MOVQ	AX, ·Result(SB)
	RET

// load (7) + CMP (4) + JHI rel8 (2) = 13 bytes: a conditional branch goom's widening table does not
// know; refusal expected when the placeholder is out of rel8 range, never a different condition
TEXT ·ShapeJHI(SB), NOSPLIT, $0-0
	MOVQ	·Input(SB), AX
	CMPQ	AX, $7
	JHI	s14_t
	ADDQ	$22, AX
	MOVQ	AX, ·Result(SB)
	RET
s14_t:
	MOVQ	$-2200, AX
	ADDQ	·Input(SB), AX
	MOVQ	AX, ·Result(SB)
	RET

// load (7) + CMP (4) + JCC rel8 (2) = 13 bytes: a conditional branch goom's widening table does not
// know; refusal expected when the placeholder is out of rel8 range, never a different condition
TEXT ·ShapeJCC(SB), NOSPLIT, $0-0
	MOVQ	·Input(SB), AX
	CMPQ	AX, $7
	JCC	s15_t
	ADDQ	$23, AX
	MOVQ	AX, ·Result(SB)
	RET
s15_t:
	MOVQ	$-2300, AX
	ADDQ	·Input(SB), AX
	MOVQ	AX, ·Result(SB)
	RET

// load (7) + CMP (4) + JCS rel8 (2) = 13 bytes: a conditional branch goom's widening table does not
// know; refusal expected when the placeholder is out of rel8 range, never a different condition
TEXT ·ShapeJCS(SB), NOSPLIT, $0-0
	MOVQ	·Input(SB), AX
	CMPQ	AX, $7
	JCS	s16_t
	ADDQ	$24, AX
	MOVQ	AX, ·Result(SB)
	RET
s16_t:
	MOVQ	$-2400, AX
	ADDQ	·Input(SB), AX
	MOVQ	AX, ·Result(SB)
	RET

// load (7) + CMP (4) + JMI rel8 (2) = 13 bytes: a conditional branch goom's widening table does not
// know; refusal expected when the placeholder is out of rel8 range, never a different condition
TEXT ·ShapeJMI(SB), NOSPLIT, $0-0
	MOVQ	·Input(SB), AX
	CMPQ	AX, $7
	JMI	s17_t
	ADDQ	$25, AX
	MOVQ	AX, ·Result(SB)
	RET
s17_t:
	MOVQ	$-2500, AX
	ADDQ	·Input(SB), AX
	MOVQ	AX, ·Result(SB)
	RET

// load (7) + CMP (4) + JPL rel8 (2) = 13 bytes: a conditional branch goom's widening table does not
// know; refusal expected when the placeholder is out of rel8 range, never a different condition
TEXT ·ShapeJPL(SB), NOSPLIT, $0-0
	MOVQ	·Input(SB), AX
	CMPQ	AX, $7
	JPL	s18_t
	ADDQ	$26, AX
	MOVQ	AX, ·Result(SB)
	RET
s18_t:
	MOVQ	$-2600, AX
	ADDQ	·Input(SB), AX
	MOVQ	AX, ·Result(SB)
	RET
