// Package asm holds hand-written / generated assembly targets: the write arena of world W-MEM
// and the entry-shape zoo of world W-ORIGIN.
package asm

import "reflect"

// Arena is a multi-page block of callable 16-byte cells: cell i is `MOV $i,AX; RET` + padding.
func Arena()

// ArenaCells is the number of cells in Arena.
const ArenaCells = 1536

// CellSize is the size of one cell in bytes.
const CellSize = 16

// ArenaAddr returns the address of the first cell.
func ArenaAddr() uintptr { return reflect.ValueOf(Arena).Pointer() }
