package asm

// Globals used by the entry-shape zoo: shapes read Input, write Result, may use Aux and Calls.
var (
	Input  int64
	Result int64
	Aux    int64
	Calls  int64
)

// Entry shapes (bodies in shapes_amd64.s). Each reads Input and stores its answer in Result.
func ShapeJE()
func ShapeJBE()
func ShapeJG()
func ShapeJMP()
func ShapeJNE()
func ShapeJL()
func ShapeBack()
func ShapeLEA()
func ShapeCMPM()
func ShapeMOVI()
func ShapeCALL()
func ShapeSkip()
func ShapeJPL()
func ShapeJMI()
func ShapeJCS()
func ShapeJCC()
func ShapeJHI()
func ShapeJGE()
func ShapeJLE()
func shapeHelper()

// Placeholders linked before (A) and after (Z) the shapes.
func PhA0()
func PhA1()
func PhA2()
func PhA3()
func PhA4()
func PhA5()
func PhA6()
func PhA7()
func PhA8()
func PhA9()
func PhA10()
func PhA11()
func PhA18()
func PhA17()
func PhA16()
func PhA15()
func PhA14()
func PhA13()
func PhA12()
func PhZ0()
func PhZ1()
func PhZ2()
func PhZ3()
func PhZ4()
func PhZ5()
func PhZ6()
func PhZ7()
func PhZ8()
func PhZ9()
func PhZ10()
func PhZ11()
func PhZ18()
func PhZ17()
func PhZ16()
func PhZ15()
func PhZ14()
func PhZ13()
func PhZ12()

// Tight placeholders (t_tight_amd64.s): K bytes of placeholder, an INT3, then a neighbour routine.
func PhTight14()
func PhTight16()
func PhTight17()
func PhTight18()
func PhTight19()
func PhTight20()
func PhTight21()
func PhTight22()
func PhTight24()
func PhTight26()
func PhTight30()

// TightSizes lists the available tight placeholder sizes.
var TightSizes = []int{14, 16, 17, 18, 19, 20, 21, 22, 24, 26, 30}

var tightRefs = []func(){PhTight14, PhTight16, PhTight17, PhTight18, PhTight19, PhTight20, PhTight21, PhTight22, PhTight24, PhTight26, PhTight30}

// Shape describes one entry shape.
type Shape struct {
	Name string // symbol name of the body is Pkg + Name + ".abi0"
	Run  func() // Go-callable wrapper
	PhA  string // placeholder linked before
	PhZ  string // placeholder linked after
	Note string
}

// Pkg is the symbol prefix of this package.
const Pkg = "github.com/tencent/goom/verifsim/zoo/asm."

// Shapes is the registry.
var Shapes = []*Shape{
	{Name: "ShapeJE", Run: ShapeJE, PhA: "PhA0", PhZ: "PhZ0", Note: "RIP-relative load + JE rel8 beyond the copied prefix (must be widened)"},
	{Name: "ShapeJBE", Run: ShapeJBE, PhA: "PhA1", PhZ: "PhZ1", Note: "JBE rel8 beyond the copied prefix"},
	{Name: "ShapeJG", Run: ShapeJG, PhA: "PhA2", PhZ: "PhZ2", Note: "JG rel8 beyond the copied prefix"},
	{Name: "ShapeJMP", Run: ShapeJMP, PhA: "PhA3", PhZ: "PhZ3", Note: "JMP rel8 beyond the copied prefix"},
	{Name: "ShapeJNE", Run: ShapeJNE, PhA: "PhA4", PhZ: "PhZ4", Note: "JNE rel8: no long form in goom's table (refusal expected)"},
	{Name: "ShapeJL", Run: ShapeJL, PhA: "PhA5", PhZ: "PhZ5", Note: "JL rel8: no long form in goom's table (refusal expected)"},
	{Name: "ShapeBack", Run: ShapeBack, PhA: "PhA6", PhZ: "PhZ6", Note: "loop branching back into the first 13 bytes (refusal expected)"},
	{Name: "ShapeLEA", Run: ShapeLEA, PhA: "PhA7", PhZ: "PhZ7", Note: "RIP-relative LEA in the prefix"},
	{Name: "ShapeCMPM", Run: ShapeCMPM, PhA: "PhA8", PhZ: "PhZ8", Note: "RIP-relative CMP with a trailing immediate, then JE rel8"},
	{Name: "ShapeMOVI", Run: ShapeMOVI, PhA: "PhA9", PhZ: "PhZ9", Note: "store-immediate to RIP-relative memory in the prefix"},
	{Name: "ShapeCALL", Run: ShapeCALL, PhA: "PhA10", PhZ: "PhZ10", Note: "CALL rel32 in the prefix"},
	{Name: "ShapeSkip", Run: ShapeSkip, PhA: "PhA11", PhZ: "PhZ11", Note: "short forward branch inside the copied prefix that jumps over a rel8 branch leaving it (refusal expected: widening the second would break the first)"},
	{Name: "ShapeJLE", Run: ShapeJLE, PhA: "PhA12", PhZ: "PhZ12", Note: "JLE rel8 beyond the copied prefix (not in goom's widening table: refusal expected, never another condition)"},
	{Name: "ShapeJGE", Run: ShapeJGE, PhA: "PhA13", PhZ: "PhZ13", Note: "JGE rel8 beyond the copied prefix (not in goom's widening table: refusal expected, never another condition)"},
	{Name: "ShapeJHI", Run: ShapeJHI, PhA: "PhA14", PhZ: "PhZ14", Note: "JHI rel8 beyond the copied prefix (not in goom's widening table: refusal expected, never another condition)"},
	{Name: "ShapeJCC", Run: ShapeJCC, PhA: "PhA15", PhZ: "PhZ15", Note: "JCC rel8 beyond the copied prefix (not in goom's widening table: refusal expected, never another condition)"},
	{Name: "ShapeJCS", Run: ShapeJCS, PhA: "PhA16", PhZ: "PhZ16", Note: "JCS rel8 beyond the copied prefix (not in goom's widening table: refusal expected, never another condition)"},
	{Name: "ShapeJMI", Run: ShapeJMI, PhA: "PhA17", PhZ: "PhZ17", Note: "JMI rel8 beyond the copied prefix (not in goom's widening table: refusal expected, never another condition)"},
	{Name: "ShapeJPL", Run: ShapeJPL, PhA: "PhA18", PhZ: "PhZ18", Note: "JPL rel8 beyond the copied prefix (not in goom's widening table: refusal expected, never another condition)"},
}

// keep every placeholder linked
var phRefs = []func(){PhA0, PhA1, PhA2, PhA3, PhA4, PhA5, PhA6, PhA7, PhA8, PhA9, PhA10, PhA11, PhA12, PhA13, PhA14, PhA15, PhA16, PhA17, PhA18, PhZ0, PhZ1, PhZ2, PhZ3, PhZ4, PhZ5, PhZ6, PhZ7, PhZ8, PhZ9, PhZ10, PhZ11, PhZ12, PhZ13, PhZ14, PhZ15, PhZ16, PhZ17, PhZ18}

// NumPh reports how many placeholders are linked.
func NumPh() int { return len(phRefs) + len(tightRefs) }
