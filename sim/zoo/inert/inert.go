// Package inert links large library packages that neither goom, the runtime nor the harness
// execute while a plan runs. Their functions are real compiler output at every alignment and page
// offset and serve as never-called patch targets for world W-MEM.
package inert

import (
	"encoding/xml"
	"go/parser"
	"go/printer"
	"go/token"
	"math/big"
	"regexp"
	"text/template"
)

// Refs keeps entry points reachable so that the linker retains the packages.
var Refs = []interface{}{
	xml.Marshal, xml.Unmarshal, xml.NewDecoder, xml.NewEncoder,
	parser.ParseFile, parser.ParseExpr, printer.Fprint, token.NewFileSet,
	big.NewInt, big.NewFloat, big.NewRat,
	regexp.Compile, regexp.MustCompile, regexp.QuoteMeta,
	template.New, template.Must, template.ParseFiles,
}

// Prefixes are the symbol-name prefixes of the packages considered inert.
var Prefixes = []string{
	"encoding/xml.", "go/parser.", "go/printer.", "go/token.", "go/ast.", "go/scanner.", "go/build/constraint.", "go/doc/comment.",
	"math/big.", "regexp.", "regexp/syntax.", "text/template.", "text/template/parse.", "text/tabwriter.", "debug/dwarf.",
}
