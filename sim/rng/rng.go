// Package rng is the only source of pseudo-randomness of the simulator (SplitMix64).
package rng

// R is a SplitMix64 generator.
type R struct{ s uint64 }

// New returns a generator for seed.
func New(seed uint64) *R { return &R{s: seed} }

// Derive returns an independent generator for (seed, stream).
func Derive(seed, stream uint64) *R {
	r := New(seed ^ (stream+1)*0x9e3779b97f4a7c15)
	r.U64()
	return r
}

// U64 returns the next value.
func (r *R) U64() uint64 {
	r.s += 0x9e3779b97f4a7c15
	z := r.s
	z = (z ^ (z >> 30)) * 0xbf58476d1ce4e5b9
	z = (z ^ (z >> 27)) * 0x94d049bb133111eb
	return z ^ (z >> 31)
}

// Intn returns a value in [0,n).
func (r *R) Intn(n int) int {
	if n <= 0 {
		return 0
	}
	return int(r.U64() % uint64(n))
}

// Chance returns true with probability permille/1000.
func (r *R) Chance(permille int) bool { return r.Intn(1000) < permille }

// Pick returns one of the weights' indices with probability proportional to its weight.
func (r *R) Pick(weights ...int) int {
	t := 0
	for _, w := range weights {
		t += w
	}
	x := r.Intn(t)
	for i, w := range weights {
		if x < w {
			return i
		}
		x -= w
	}
	return len(weights) - 1
}
