// Package model holds the small executable reference models used as oracles.
package model

// Clause is one When/In clause of a stub: it matches a call when some alternative matches; an
// alternative matches when it has as many matchers as the call has (expanded) arguments and
// every matcher accepts its argument.
type Clause struct {
	Alts    [][]ArgMatcher
	Results [][]interface{}
	Cursor  int
}

// ArgMatcher is one argument expression.
type ArgMatcher struct {
	Any    bool
	Values []interface{} // Equals (one value) or In (several)
}

// Stub is the documented semantics of a conditional / sequenced stub.
type Stub struct {
	Default    [][]interface{} // nil: no default
	DefCursor  int
	Clauses    []*Clause
	Eq         func(pattern, arg interface{}) bool
	HasResults bool
}

// Outcome of a call.
type Outcome struct {
	Panic   bool // "no suitable condition"
	Results []interface{}
	Clause  int // index of the selected clause, -1 default
	Pos     int // position in the sequence
}

func next(seq [][]interface{}, cur *int) ([]interface{}, int) {
	p := *cur
	if p >= len(seq)-1 {
		p = len(seq) - 1
	} else {
		*cur = p + 1
	}
	return seq[p], p
}

// Call evaluates the stub for the (variadic-expanded, receiver-less) arguments.
func (s *Stub) Call(args []interface{}) Outcome {
	for ci, c := range s.Clauses {
		for _, alt := range c.Alts {
			if len(alt) != len(args) {
				continue
			}
			ok := true
			for i, m := range alt {
				if !s.match(m, args[i]) {
					ok = false
					break
				}
			}
			if ok {
				r, p := next(c.Results, &c.Cursor)
				return Outcome{Results: r, Clause: ci, Pos: p}
			}
		}
	}
	if s.Default != nil {
		r, p := next(s.Default, &s.DefCursor)
		return Outcome{Results: r, Clause: -1, Pos: p}
	}
	if !s.HasResults {
		return Outcome{Clause: -1}
	}
	return Outcome{Panic: true, Clause: -1}
}

func (s *Stub) match(m ArgMatcher, a interface{}) bool {
	if m.Any {
		return true
	}
	for _, v := range m.Values {
		if s.Eq(v, a) {
			return true
		}
	}
	return false
}
