module github.com/tencent/goom/verifsim

go 1.21

require (
	github.com/anishathalye/porcupine v1.3.0
	github.com/tencent/goom v0.0.0
)

replace github.com/tencent/goom => /repo
