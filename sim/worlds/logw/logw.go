// Package logw is the differential world of C19: the plans of the behavioural worlds (hist,
// stub, iface; same generators, same seeds) are executed three times in one process - logging
// off, OpenDebug(), OpenTrace() - and their canonical transcripts (calls, argument values,
// results, panics) must be identical. OpenDebug / OpenTrace / Close* are also spliced into hist
// histories as operations. The parent repeats the same seeds with GOOM_DEBUG=1 in the environment
// and with broken log sinks and compares transcripts across processes.
package logw

import (
	"fmt"
	"github.com/tencent/goom/verifsim/rng"
	"github.com/tencent/goom/verifsim/simenv"
	"time"

	mocker "github.com/tencent/goom"
	"github.com/tencent/goom/verifsim/world"
)

// W is the world.
type W struct{}

func init() {
	world.Register(W{})
	world.PropWorld["C19"] = "log"
}

// Name of the world.
func (W) Name() string { return "log" }

var subs = []string{"hist", "stub", "iface"}

// Gen delegates to one of the behavioural worlds.
func (W) Gen(prop string, seed uint64, tier string) *world.Plan {
	if seed%29 == 11 && !simenv.RaceBuild {
		return genTimeNow(seed)
	}
	si := int(seed % uint64(len(subs)))
	subProp := "C19"
	if simenv.RaceBuild {
		// the race-detector build only adds something where tasks overlap: concurrent stub plans
		si = 1
	}
	if subs[si] == "stub" {
		subProp = []string{"C04", "C05"}[int(seed/3)%2]
		if simenv.RaceBuild {
			subProp = "C05"
		}
	}
	p := world.Get(subs[si]).Gen(subProp, seed, tier)
	p.Prop = "C19"
	p.World = "log"
	if p.Knobs == nil {
		p.Knobs = map[string]int{}
	}
	p.Knobs["sub"] = si
	delete(p.Knobs, "logcfg") // this world sets the logging configuration itself
	return p
}

func setLogging(cfg int) {
	mocker.CloseTrace()
	mocker.CloseDebug()
	switch cfg {
	case 1:
		mocker.OpenDebug()
	case 2:
		mocker.OpenTrace()
	}
}

var cfgName = []string{"logging off", "OpenDebug", "OpenTrace"}

// Exec runs the plan under every logging configuration and compares.
func (W) Exec(p *world.Plan, env *world.Env) {
	if p.Knobs["timenow"] == 1 {
		execTimeNow(p, env)
		return
	}
	si := p.Knobs["sub"]
	if si < 0 || si >= len(subs) {
		env.Res.Verdict = "invalid"
		return
	}
	w := world.Get(subs[si])
	defer setLogging(0)
	var base []string
	for cfg := 0; cfg < 3; cfg++ {
		setLogging(cfg)
		sp := *p
		sp.World = subs[si]
		res, lines := env.Sub(w, &sp)
		setLogging(0)
		env.Res.Checks += res.Checks
		env.Res.Ops += res.Ops
		env.Res.Stats.Events += res.Stats.Events
		env.Res.Stats.GC += res.Stats.GC
		env.Res.Stats.Grow += res.Stats.Grow
		env.Res.Stats.Switches += res.Stats.Switches
		if cfg == 0 {
			env.Res.Stats.SwitchHash = res.Stats.SwitchHash
			env.Res.Fired = res.Fired
		}
		for _, k := range res.Known {
			env.UseKnown(k)
		}
		switch res.Verdict {
		case "invalid":
			env.Res.Verdict = "invalid"
			return
		case "ok":
		default:
			env.Res.Verdict = res.Verdict
			env.Res.Sig = res.Sig
			env.Res.Msg = fmt.Sprintf("[%s] %s", cfgName[cfg], res.Msg)
			env.Res.At = res.At
			if cfg > 0 && res.Verdict == "violation" {
				// the same plan passed with logging off: logging changed the behaviour
				env.Res.Sig = "log/behaviour-differs:" + res.Sig
			}
			return
		}
		for _, l := range lines {
			env.T("%s", l)
		}
		if cfg == 0 {
			base = lines
			continue
		}
		env.Check()
		if d := firstDiff(base, lines); d != "" {
			env.Res.At = cfgName[cfg]
			env.FailNoUnwind("log/transcript-differs", "transcript under %s differs from the transcript with logging off: %s", cfgName[cfg], d)
			return
		}
	}
	env.Res.Nontriv = true
	env.Probe("sub_" + subs[si])
}

func firstDiff(a, b []string) string {
	for i := 0; i < len(a) && i < len(b); i++ {
		if a[i] != b[i] {
			return fmt.Sprintf("line %d: off=%q on=%q", i, a[i], b[i])
		}
	}
	if len(a) != len(b) {
		return fmt.Sprintf("%d lines with logging off, %d with logging on", len(a), len(b))
	}
	return ""
}

// ---- time.Now: the one target goom's debug wrapper treats specially (its own log line needs the
// time, so the wrapper must not log calls of a mocked time.Now: unbounded recursion otherwise)

func genTimeNow(seed uint64) *world.Plan {
	r := rng.Derive(seed, 0x71e)
	p := &world.Plan{Prop: "C19", World: "log", Seed: seed, Knobs: map[string]int{"timenow": 1}}
	var ops []world.Op
	stub := false // a default is configured in the current stub epoch (a second bare Return is not generated)
	for i, n := 0, 4+r.Intn(8); i < n; i++ {
		switch r.Pick(30, 20, 35, 15) {
		case 0:
			ops = append(ops, world.Op{K: "tnapply", V: r.U64()})
			stub = false
		case 1:
			if stub {
				continue
			}
			ops = append(ops, world.Op{K: "tnret", V: r.U64()})
			stub = true
		case 2:
			ops = append(ops, world.Op{K: "tncall"})
		case 3:
			ops = append(ops, world.Op{K: "tnreset"})
			stub = false
		}
	}
	ops = append(ops, world.Op{K: "tncall"})
	p.Tasks = []world.Task{{Role: "timenow", Ops: ops}}
	return p
}

var procStart = time.Now()

func runTimeNow(p *world.Plan, env *world.Env) (lines []string, failure string) {
	b := mocker.Create()
	defer b.Reset()
	mocked, stubEpoch := false, false
	var fixed time.Time
	calls := 0
	for i, op := range p.Tasks[0].Ops {
		switch op.K {
		case "tnapply":
			fixed = time.Unix(1500000000+int64(op.V%100000), 0)
			f := fixed
			b.Func(time.Now).Apply(func() time.Time {
				calls++
				return f
			})
			mocked, stubEpoch = true, false
		case "tnret":
			if stubEpoch {
				return nil, "invalid"
			}
			stubEpoch = true
			fixed = time.Unix(1400000000+int64(op.V%100000), 0)
			b.Func(time.Now).Return(fixed)
			mocked = true
		case "tnreset":
			b.Reset()
			mocked, stubEpoch = false, false
		case "tncall":
			before := calls
			got := time.Now()
			env.Check()
			if mocked {
				if !got.Equal(fixed) {
					return lines, fmt.Sprintf("op#%d: time.Now is mocked to return %v but returned %v", i, fixed.Unix(), got.Unix())
				}
				if calls-before > 1 {
					return lines, fmt.Sprintf("op#%d: the replacement of time.Now ran %d times for one call", i, calls-before)
				}
			} else if got.Before(procStart) || got.Equal(fixed) {
				return lines, fmt.Sprintf("op#%d: time.Now is not mocked but returned %v", i, got.Unix())
			}
		default:
			return lines, "unknown op " + op.K
		}
		lines = append(lines, fmt.Sprintf("%s mocked=%v", op.K, mocked))
		env.Op()
	}
	return lines, ""
}

func execTimeNow(p *world.Plan, env *world.Env) {
	defer setLogging(0)
	var base []string
	for cfg := 0; cfg < 3; cfg++ {
		setLogging(cfg)
		var lines []string
		var failure string
		pv := func() (pv interface{}) {
			defer func() { pv = recover() }()
			lines, failure = runTimeNow(p, env)
			return nil
		}()
		setLogging(0)
		if pv != nil {
			failure = fmt.Sprintf("panic: %v", pv)
		}
		if failure == "invalid" {
			env.Res.Verdict = "invalid"
			return
		}
		if failure != "" {
			env.Res.At = cfgName[cfg]
			sig := "timenow/behaviour"
			if cfg > 0 {
				sig = "log/behaviour-differs:timenow"
			}
			env.FailNoUnwind(sig, "mocking time.Now under %s: %s", cfgName[cfg], failure)
			return
		}
		for _, l := range lines {
			env.T("%s", l)
		}
		if cfg == 0 {
			base = lines
			continue
		}
		if d := firstDiff(base, lines); d != "" {
			env.Res.At = cfgName[cfg]
			env.FailNoUnwind("log/transcript-differs", "time.Now scenario under %s: %s", cfgName[cfg], d)
			return
		}
	}
	env.Res.Nontriv = true
	env.Probe("time_now_mocked_under_every_logging_configuration")
}
