// Package concw is world W-CONC (C11): N mocker tasks, each with its own builder and a disjoint
// target set, run concurrently with M caller tasks that call steadily mocked functions
// (callbacks, origin-calling callbacks, stubs). The seeded scheduler preempts at every hook site
// (inside replaceFunc, between mprotect RWX, copy and mprotect RX, at lock hand-overs); GC and
// stack-growth events fire at the same points. Oracles: race detector on the same plans, crash /
// deadlock, every steady call yields its mocked result, each mocker's targets follow its own
// model, the image differs from pristine only at entries that some task owns, pages stay
// executable mid-write, and at quiescence everything is restored.
package concw

import (
	"fmt"
	"sort"

	mocker "github.com/tencent/goom"
	"github.com/tencent/goom/verifsim/rng"
	"github.com/tencent/goom/verifsim/simcore"
	"github.com/tencent/goom/verifsim/simenv"
	"github.com/tencent/goom/verifsim/world"
	"github.com/tencent/goom/verifsim/worlds/hist"
	"github.com/tencent/goom/verifsim/zoo/thunk"
)

// W is the world.
type W struct{}

func init() {
	world.Register(W{})
	world.PropWorld["C11"] = "conc"
}

// Name of the world.
func (W) Name() string { return "conc" }

// funcsByAddr returns the targets usable by this world sorted by entry address: zoo functions, or
// (for C06) the non-generic methods of the method zoo.
func funcsByAddr(prop string) []int {
	var out []int
	for _, t := range hist.Targets {
		if prop == "C06" {
			if t.Kind == "method" && !t.Generic && t.Known == "" && !t.NoOrigin && t.FixArgs == nil {
				out = append(out, t.Idx)
			}
			continue
		}
		if t.Kind == "func" && !t.Generic {
			out = append(out, t.Idx)
		}
	}
	sort.Slice(out, func(i, j int) bool { return hist.Targets[out[i]].Entry < hist.Targets[out[j]].Entry })
	return out
}

// Gen: tasks[0] = "steady" (executed by the driver before the run), then mockers, then callers.
func (W) Gen(prop string, seed uint64, tier string) *world.Plan {
	r := rng.Derive(seed, 0xc0c)
	p := &world.Plan{Prop: prop, World: "conc", Seed: seed}
	p.Sched.Permille = []int{20, 100, 300, 600}[r.Intn(4)]
	p.Sched.GCPermille = []int{0, 10, 40}[r.Intn(3)]
	p.Sched.GrowPermille = []int{0, 10}[r.Intn(2)]
	p.Sched.MaxGC = 4
	p.Sched.MaxSteps = 60000
	if r.Chance(200) {
		// fault configuration: a mocker's operation may fail under an injected mprotect error; the
		// other tasks must keep making progress (no leaked lock) and everything is still restored
		p.Knobs = map[string]int{"faults": 1}
		p.Sched.FaultPermille = map[string]int{"mprotect": []int{20, 60}[r.Intn(2)]}
		p.Sched.FaultKinds = map[string][]int{"mprotect": {1, 2}}
		p.Sched.MaxFaults = 1 + r.Intn(2)
	}
	if prop == "C11" && r.Chance(150) {
		if p.Knobs == nil {
			p.Knobs = map[string]int{}
		}
		p.Knobs["logcfg"] = 1 + r.Intn(2)
	}
	byAddr := funcsByAddr(prop)
	// a window of address-adjacent functions so that targets share code pages
	nM := 2 + r.Intn(3)
	nC := 1 + r.Intn(3)
	perM := 1 + r.Intn(3)
	nS := 1 + r.Intn(3)
	need := nM*perM + nS
	for need >= len(byAddr) {
		perM = 1
		if nM > 2 {
			nM--
		}
		need = nM*perM + nS
	}
	start := int(seed % uint64(len(byAddr)-need))
	win := append([]int(nil), byAddr[start:start+need]...)
	// deal the window round-robin so that every mocker's targets sit between steady ones
	r2 := rng.Derive(seed, 0xc0d)
	for i := len(win) - 1; i > 0; i-- {
		j := r2.Intn(i + 1)
		win[i], win[j] = win[j], win[i]
	}
	steady := win[:nS]
	var sops []world.Op
	for _, t := range steady {
		switch r.Pick(50, 25, 25) {
		case 0:
			sops = append(sops, world.Op{K: "apply", B: 0, T: t, V: r.U64(), W: r.U64()})
		case 1:
			sops = append(sops, world.Op{K: "apply", B: 0, T: t, F: 1, V: r.U64(), W: r.U64()})
		case 2:
			if hist.Targets[t].Typ.NumOut() > 0 {
				if r.Chance(500) {
					// a result sequence consumed up to its last-but-one element by the driver: from then
					// on every (concurrent) call must receive the last element
					sops = append(sops, world.Op{K: "retseq", B: 0, T: t, V: r.U64(), W: r.U64()})
					continue
				}
				sops = append(sops, world.Op{K: "ret", B: 0, T: t, V: r.U64(), W: r.U64()})
			} else {
				sops = append(sops, world.Op{K: "apply", B: 0, T: t, V: r.U64(), W: r.U64()})
			}
		}
	}
	tasks := []world.Task{{Role: "steady", Ops: sops}}
	for m := 0; m < nM; m++ {
		own := win[nS+m*perM : nS+(m+1)*perM]
		var ops []world.Op
		mocked := map[int]bool{}
		stubbed := map[int]bool{}
		for i, n := 0, 3+r.Intn(10); i < n; i++ {
			// one builder per target: Builder.Reset walks a Go map, so a Reset that covers several
			// mockers would order its writes differently from run to run (DESIGN.md §5)
			bi := r.Intn(len(own))
			t := own[bi]
			switch r.Pick(40, 15, 10, 15, 10, 10) {
			case 0:
				ops = append(ops, world.Op{K: "apply", B: bi, T: t, V: r.U64(), W: r.U64()})
				mocked[t], stubbed[t] = true, false
			case 1:
				if hist.Targets[t].Typ.NumOut() > 0 && !stubbed[t] {
					ops = append(ops, world.Op{K: "ret", B: bi, T: t, V: r.U64(), W: r.U64()})
					mocked[t], stubbed[t] = true, true
				}
			case 2:
				if hist.Targets[t].Simple && hist.Targets[t].Typ.NumOut() > 0 {
					ops = append(ops, world.Op{K: "when", B: bi, T: t, V: r.U64(), W: r.U64()})
					mocked[t], stubbed[t] = true, true
				}
			case 3:
				ops = append(ops, world.Op{K: "cancel", B: bi, T: t, W: r.U64()})
				mocked[t], stubbed[t] = false, false
			case 4:
				ops = append(ops, world.Op{K: "reset", B: bi})
				mocked[t], stubbed[t] = false, false
			case 5:
				ops = append(ops, world.Op{K: "call", T: t, F: r.Intn(3), W: r.U64()})
			}
		}
		tasks = append(tasks, world.Task{Role: "mocker", Ops: ops})
	}
	for c := 0; c < nC; c++ {
		var ops []world.Op
		for i, n := 0, 4+r.Intn(16); i < n; i++ {
			ops = append(ops, world.Op{K: "ccall", T: steady[r.Intn(len(steady))], F: r.Pick(50, 20, 10, 10, 10), W: r.U64()})
		}
		tasks = append(tasks, world.Task{Role: "caller", Ops: ops})
	}
	p.Tasks = tasks
	return p
}

func wellFormed(p *world.Plan) bool {
	if len(p.Tasks) < 2 || p.Tasks[0].Role != "steady" || len(p.Tasks)-1 > simcore.MaxTasks {
		return false
	}
	owner := map[int]int{}
	steady := map[int]bool{}
	for _, op := range p.Tasks[0].Ops {
		if op.T < 0 || op.T >= len(hist.Targets) || (op.K != "apply" && op.K != "ret" && op.K != "retseq") || steady[op.T] {
			return false
		}
		if tt := hist.Targets[op.T]; tt.FixArgs != nil || (op.K == "apply" && op.F&1 == 1 && (tt.NoOrigin || tt.Generic || tt.MkOrig == nil)) {
			return false // no origin placeholder for this target / a target only world hist can call
		}
		steady[op.T] = true
	}
	for ti, t := range p.Tasks[1:] {
		for _, op := range t.Ops {
			if op.T < 0 || op.T >= len(hist.Targets) {
				return false
			}
			switch t.Role {
			case "mocker":
				if op.K == "reset" {
					continue
				}
				if steady[op.T] {
					return false
				}
				if o, ok := owner[op.T]; ok && o != ti {
					return false
				}
				owner[op.T] = ti
				if op.F == 1 && op.K == "apply" {
					return false // origin placeholders only on steady targets (placeholder bookkeeping is driver-side)
				}
			case "caller":
				if op.K != "ccall" || !steady[op.T] {
					return false
				}
			default:
				return false
			}
		}
	}
	// every mocker history must itself be well-formed
	for _, t := range p.Tasks[1:] {
		if t.Role == "mocker" {
			if !hist.WellFormed(&world.Plan{Tasks: []world.Task{t}}) {
				return false
			}
		}
	}
	return true
}

// Exec runs the plan.
func (W) Exec(p *world.Plan, env *world.Env) {
	if !wellFormed(p) {
		env.Res.Verdict = "invalid"
		return
	}
	img := env.Image
	if lc := p.Knobs["logcfg"]; lc > 0 {
		// the logging configuration is fixed before any task starts (toggling it concurrently is
		// documented as unsupported) and every mock then goes through the debug wrapper
		if lc == 1 {
			mocker.OpenDebug()
		} else {
			mocker.OpenTrace()
		}
		defer func() {
			mocker.CloseTrace()
			mocker.CloseDebug()
		}()
		env.Probe("concurrent_world_with_logging_on")
	}
	// ---- driver: steady mocks (happens-before every task via goroutine creation)
	steady := hist.NewExec(env, p, p.Tasks[0].Ops)
	steady.Label = "steady "
	failedSetup := false
	func() {
		defer func() {
			if r := recover(); r != nil {
				if _, ok := r.(world.Failure); !ok && !env.Failed() {
					// a well-formed steady operation panicked inside goom (same rule as world hist)
					env.Res.At = "steady setup"
					env.FailNoUnwind("crash/panic", "unexpected panic while installing the steady mocks: %v", r)
				}
				failedSetup = true
			}
		}()
		for i, op := range p.Tasks[0].Ops {
			steady.Step(i, op)
			if op.K == "retseq" {
				// Step already made one call; consume the sequence up to (not including) its last element
				for k := 1; k < 1+int(op.W%3); k++ {
					steady.CallTarget(op.T, thunk.FormDirect, op.W+uint64(k))
				}
			}
		}
	}()
	if failedSetup {
		return
	}
	var mockers []*hist.Exec
	var tasks []func()
	allRegions := func(except *hist.Exec) []simenv.Region {
		// entries owned by other interpreters: pristine or a complete jump (in flux is fine)
		var rs []simenv.Region
		if except != steady {
			rs = append(rs, steady.Regions()...)
		}
		for _, m := range mockers {
			if m == except {
				continue
			}
			for _, op := range m.Ops {
				if op.K == "reset" {
					continue
				}
				rs = append(rs, simenv.Region{Addr: hist.Targets[op.T].Entry, Len: 13, Kind: simenv.RegionJump, Name: hist.Targets[op.T].Name})
			}
		}
		return rs
	}
	for ti := 1; ti < len(p.Tasks); ti++ {
		t := p.Tasks[ti]
		idx := ti - 1
		switch t.Role {
		case "mocker":
			m := hist.NewExec(env, p, t.Ops)
			m.Faults = p.Knobs["faults"] == 1
			m.Label = fmt.Sprintf("mocker%d ", idx)
			m.Foreign = func() []simenv.Region { return allRegions(m) }
			mockers = append(mockers, m)
			tasks = append(tasks, func() {
				for i, op := range t.Ops {
					simcore.Yield(simcore.SiteOp, uintptr(i))
					m.Step(i, op)
					env.Op()
				}
			})
		case "caller":
			tasks = append(tasks, func() {
				for i, op := range t.Ops {
					simcore.Yield(simcore.SiteCall, uintptr(i))
					if simcore.InRWXWindow() {
						simcore.NoteCallerOnRWX()
						env.Check()
						if msg := img.CheckPages(true); msg != "" && p.Knobs["faults"] != 1 {
							env.FailAt(fmt.Sprintf("caller%d op#%d", idx, i), "pages/not-executable-midwrite", "%s", msg)
						}
					}
					// steady calls: the mocked result every time
					steady.CallTarget(op.T, op.F, op.W)
					env.Op()
				}
			})
		}
	}
	res := simcore.Run(p.SchedConfig(), tasks)
	env.Res.Merge(res)
	for i, pv := range res.Panics[:len(tasks)] {
		if pv == nil {
			continue
		}
		if _, ok := pv.(world.Failure); !ok && !env.Failed() {
			env.Res.At = fmt.Sprintf("task %d (%s)", i, p.Tasks[i+1].Role)
			env.FailNoUnwind("crash/panic", "unexpected panic in task %d (%s): %v", i, p.Tasks[i+1].Role, pv)
		}
	}
	// ---- quiescence: everything restored (driver; happens-after every task through the join)
	func() {
		defer func() {
			if r := recover(); r != nil {
				if _, ok := r.(world.Failure); !ok {
					panic(r)
				}
			}
		}()
		for _, m := range mockers {
			m.Foreign = nil
		}
		// every interpreter's Final resets its builders; foreign regions are still allowed while
		// the others have not been reset yet
		done := map[*hist.Exec]bool{}
		rest := func(self *hist.Exec) func() []simenv.Region {
			return func() []simenv.Region {
				var rs []simenv.Region
				for _, m := range append([]*hist.Exec{steady}, mockers...) {
					if m != self && !done[m] {
						rs = append(rs, m.Regions()...)
					}
				}
				return rs
			}
		}
		for _, m := range append(append([]*hist.Exec{}, mockers...), steady) {
			m.Foreign = rest(m)
			m.Final()
			done[m] = true
		}
		if p.Knobs["faults"] == 1 {
			// injected failures leave pages RWX and the seam's view apart from the kernel's
			simenv.RestoreRX(simcore.WritablePages())
			simcore.ResetPageTable()
		}
		env.Check()
		if msg := img.Check(steady.Regions()); msg != "" {
			env.FailAt("quiescence", "image/not-restored", "%s", msg)
		}
	}()
	env.Res.Nontriv = res.Stats.Switches > 0
	_ = thunk.NumForms
}
