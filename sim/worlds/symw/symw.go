// Package symw is world W-SYM (C10): symbol lookup by name under read faults on the executable
// and concurrent first use. The truth is the running binary's own view: function entries from the
// ELF symbol table cross-checked with runtime.FuncForPC, variable addresses from &var.
package symw

import (
	"fmt"
	"reflect"
	"runtime"
	"sort"
	"strings"

	"github.com/tencent/goom/internal/unexports2"
	"github.com/tencent/goom/verifsim/rng"
	"github.com/tencent/goom/verifsim/simcore"
	"github.com/tencent/goom/verifsim/simenv"
	"github.com/tencent/goom/verifsim/world"
	"github.com/tencent/goom/verifsim/zoo/vars"
)

// W is the world.
type W struct{}

func init() {
	world.Register(W{})
	world.PropWorld["C10"] = "sym"
}

// Name of the world.
func (W) Name() string { return "sym" }

var (
	funcNames []string
	funcAddr  map[string]uintptr
	funcAll   map[string][]uintptr // every entry carrying a name (ABI wrappers share the name of their body)
	varAddr   map[string]uintptr
)

// truth builds name -> address for every function whose runtime name is unique.
func truth() {
	if funcAddr != nil {
		return
	}
	funcAddr = map[string]uintptr{}
	funcAll = map[string][]uintptr{}
	varAddr = map[string]uintptr{}
	img, err := simenv.Shared()
	if err != nil {
		return
	}
	count := map[string]int{}
	entry := map[string]uintptr{}
	// function entries from the runtime's own table, independent of the ELF symbol table (which a
	// stripped build does not have) and of the gosym path goom uses: functions are 16-byte aligned
	for e := img.Start &^ 15; e < img.End; e += 16 {
		f := runtime.FuncForPC(e)
		if f == nil || f.Entry() != e {
			continue
		}
		n := f.Name()
		if n == "" {
			continue
		}
		count[n]++
		entry[n] = e
		funcAll[n] = append(funcAll[n], e)
	}
	for n, c := range count {
		if c == 1 && !strings.Contains(n, "[...]") {
			funcAddr[n] = entry[n]
			funcNames = append(funcNames, n)
		}
	}
	sort.Strings(funcNames)
	for _, v := range vars.Vars {
		varAddr["github.com/tencent/goom/verifsim/zoo/vars."+v.Name] = reflect.ValueOf(v.Ptr).Pointer()
	}
}

func nearMiss(r *rng.R, n string) string {
	switch r.Intn(9) {
	case 6:
		// the tail of the path after one of its slashes ("zoo/fn.F001", "fn.F001"): a different name
		if k := strings.Count(n, "/"); k > 0 {
			cut := 1 + r.Intn(k)
			rest := n
			for ; cut > 0; cut-- {
				rest = rest[strings.Index(rest, "/")+1:]
			}
			return rest
		}
		return "x/" + n
	case 7:
		// the bare symbol without its package, or a longer path that ends in the real one
		if r.Intn(2) == 0 {
			return n[strings.LastIndex(n, ".")+1:]
		}
		return "example.org/vendor/" + n
	case 8:
		// a proper prefix that ends at a separator
		if i := strings.LastIndexAny(n, "./"); i > 0 {
			return n[:i]
		}
		return n + "."
	case 0:
		return n[:len(n)-1]
	case 1:
		return n + "x"
	case 2:
		return strings.ToUpper(n)
	case 3:
		return n + "-fm"
	case 4:
		if i := strings.LastIndex(n, "."); i > 0 {
			return n[:i] + "_" + n[i+1:]
		}
		return "_" + n
	default:
		return "no/such/pkg." + n
	}
}

// Gen builds a plan. F: 0 function, 1 variable, 2 absent/near-miss function, 3 absent variable.
func (W) Gen(prop string, seed uint64, tier string) *world.Plan {
	truth()
	r := rng.Derive(seed, 0x5e1)
	p := &world.Plan{Prop: prop, World: "sym", Seed: seed, Knobs: map[string]int{}}
	p.Sched.MaxSteps = 400000
	nT := 1
	if r.Chance(400) {
		nT = 2 + r.Intn(3)
		p.Sched.Permille = []int{100, 400, 1000}[r.Intn(3)]
	}
	// fault: none (30%), or exactly one read fault at call index i of kind k
	if r.Chance(700) {
		i := int(seed/3) % 16
		kind := []int{simcore.FaultEIO, simcore.FaultShort, simcore.FaultZero}[seed%3]
		p.UseDirectives = nT == 1
		if nT == 1 {
			p.Directives = []simcore.Directive{{Task: 0, Site: siteExeRead(), Nth: i, Act: simcore.ActFault, To: kind}}
		} else {
			p.Sched.FaultPermille = map[string]int{"exe.read": 60}
			p.Sched.FaultKinds = map[string][]int{"exe.read": {kind}}
			p.Sched.MaxFaults = 1
		}
		p.Knobs["fault"] = 1
	}
	names := func(n int) []world.Op {
		var ops []world.Op
		for i := 0; i < n; i++ {
			switch r.Pick(50, 20, 20, 10) {
			case 0:
				ops = append(ops, world.Op{K: "look", F: 0, S: funcNames[r.Intn(len(funcNames))]})
			case 1:
				v := vars.Vars[r.Intn(len(vars.Vars))]
				ops = append(ops, world.Op{K: "look", F: 1, S: "github.com/tencent/goom/verifsim/zoo/vars." + v.Name})
			case 2:
				ops = append(ops, world.Op{K: "look", F: 2, S: nearMiss(r, funcNames[r.Intn(len(funcNames))])})
			case 3:
				v := vars.Vars[r.Intn(len(vars.Vars))]
				ops = append(ops, world.Op{K: "look", F: 3, S: nearMiss(r, "github.com/tencent/goom/verifsim/zoo/vars."+v.Name)})
			}
		}
		return ops
	}
	for t := 0; t < nT; t++ {
		p.Tasks = append(p.Tasks, world.Task{Role: "lookup", Ops: names(4 + r.Intn(40))})
	}
	// a sweep block: consecutive names so that the thorough tier covers the whole table
	start := int(seed*131) % len(funcNames)
	var sw []world.Op
	for i, n := 0, 100; i < n; i++ {
		sw = append(sw, world.Op{K: "look", F: 0, S: funcNames[(start+i)%len(funcNames)]})
	}
	p.Tasks[0].Ops = append(p.Tasks[0].Ops, sw...)
	return p
}

func siteExeRead() int {
	for i := 0; i < simcore.NumSites; i++ {
		if simcore.SiteName(i) == "exe.read" {
			return i
		}
	}
	return 0
}

type outcome struct {
	addr uintptr
	err  error
	pv   interface{}
	name string
	kind int
}

// Exec runs the plan.
func (W) Exec(p *world.Plan, env *world.Env) {
	truth()
	if len(p.Tasks) == 0 || len(p.Tasks) > simcore.MaxTasks {
		env.Res.Verdict = "invalid"
		return
	}
	unexports2.ResetForVerif()
	outs := make([][]outcome, len(p.Tasks))
	var tasks []func()
	for ti, t := range p.Tasks {
		ti, t := ti, t
		tasks = append(tasks, func() {
			for i, op := range t.Ops {
				simcore.Yield(simcore.SiteOp, uintptr(i))
				o := outcome{name: op.S, kind: op.F}
				func() {
					defer func() { o.pv = recover() }()
					if op.F == 1 || op.F == 3 {
						o.addr, o.err = unexports2.FindVarByName(op.S)
					} else {
						o.addr, o.err = unexports2.FindFuncByName(op.S)
					}
				}()
				outs[ti] = append(outs[ti], o)
				env.Op()
			}
		})
	}
	res := simcore.Run(p.SchedConfig(), tasks)
	env.Res.Merge(res)
	for i, pv := range res.Panics[:len(tasks)] {
		if pv != nil {
			env.Res.At = fmt.Sprintf("task %d", i)
			env.FailNoUnwind("crash/panic", "task %d: unexpected panic: %v", i, pv)
			return
		}
	}
	faulted := len(res.Stats.Faults) > 0
	// position-independent and stripped builds: the statement allows "an error" for every lookup
	relaxed := env.Image.Slide != 0 || !env.Image.HasSymtab
	if relaxed {
		env.Probe("tables_not_readable_build")
	}
	reads := 0
	if res.Stats.Sites != nil {
		reads = int(res.Stats.Sites["exe.read"])
	}
	if reads > 0 {
		env.Probe(fmt.Sprintf("exe_reads_per_load_%d", reads/8*8))
	}
	okN, errN := 0, 0
	for ti, os := range outs {
		for i, o := range os {
			env.Check()
			at := fmt.Sprintf("task %d op#%d lookup %q", ti, i, o.name)
			var want uintptr
			present := false
			switch o.kind {
			case 0:
				want, present = funcAddr[o.name]
			case 1:
				want, present = varAddr[o.name]
			case 2:
				want, present = funcAddr[o.name] // a near miss may coincide with a real name
				if all := funcAll[o.name]; !present && len(all) > 0 {
					// a name shared by several entries: any of them is "that symbol"
					present = true
					want = all[0]
					for _, a := range all {
						if a == o.addr {
							want = a
						}
					}
				}
				if !present {
					// a generated name may be a non-Go symbol of the binary (C / assembly symbols of the race
					// runtime, for example): then the symbol table itself is the truth
					if e := env.Image.Lookup(o.name); e != 0 {
						want, present = e, true
					}
				}
			case 3:
				want, present = varAddr[o.name]
			}
			failedCleanly := o.err != nil || o.pv != nil
			env.T("look %s -> ok=%v", o.name, !failedCleanly)
			if failedCleanly {
				errN++
				if o.addr != 0 && o.pv == nil {
					env.Res.At = at
					env.FailNoUnwind("sym/addr-with-error", "lookup returned both an error (%v) and address %#x", o.err, o.addr)
					return
				}
				if !faulted && !relaxed && o.pv != nil {
					env.Res.At = at
					env.FailNoUnwind("sym/panic", "lookup panicked without any injected fault: %v", o.pv)
					return
				}
				if !faulted && !relaxed && present {
					env.Res.At = at
					env.FailNoUnwind("sym/present-not-found", "symbol is present in the binary at %#x but the lookup failed: %v", want, o.err)
					return
				}
				continue
			}
			okN++
			if !present {
				env.Res.At = at
				env.FailNoUnwind("sym/absent-found", "name is absent from the binary but the lookup returned address %#x (%s)", o.addr, describe(o.addr))
				return
			}
			if o.addr != want {
				env.Res.At = at
				env.FailNoUnwind("sym/wrong-address", "lookup returned %#x (%s), the symbol lives at %#x (fault injected: %v)", o.addr, describe(o.addr), want, faulted)
				return
			}
		}
	}
	if faulted {
		if errN > 0 {
			env.Probe("load_failed_cleanly_under_fault")
		} else {
			env.Probe("load_survived_fault")
		}
	}
	env.Res.Nontriv = faulted || res.Stats.Switches > 0
	// leave a clean table for whoever runs next in this process
	unexports2.ResetForVerif()
}

func describe(a uintptr) string {
	if f := runtime.FuncForPC(a); f != nil {
		return fmt.Sprintf("%s+%d", f.Name(), a-f.Entry())
	}
	return "not a function"
}
