// Package stubw is world W-STUB: conditional stubs and result sequences (C04, C05). A stub is
// configured on one zoo target (default first, then When / In clauses with Return / AndReturn /
// Returns sequences), then called sequentially and from K concurrent caller tasks under the
// scheduler. Sequential answers are compared with the reference interpreter call by call; the
// concurrent history is checked with porcupine against the relaxed sequence model.
package stubw

import (
	"fmt"
	"reflect"
	"strings"
	"time"

	"github.com/anishathalye/porcupine"
	mocker "github.com/tencent/goom"
	"github.com/tencent/goom/arg"
	"github.com/tencent/goom/verifsim/model"
	"github.com/tencent/goom/verifsim/rng"
	"github.com/tencent/goom/verifsim/simcore"
	"github.com/tencent/goom/verifsim/simenv"
	"github.com/tencent/goom/verifsim/val"
	"github.com/tencent/goom/verifsim/world"
	"github.com/tencent/goom/verifsim/worlds/hist"
	"github.com/tencent/goom/verifsim/zoo/fn"
	"github.com/tencent/goom/verifsim/zoo/thunk"
)

// W is the world.
type W struct{}

func init() {
	world.Register(W{})
	world.PropWorld["C04"] = "stub"
	world.PropWorld["C05"] = "stub"
}

// Name of the world.
func (W) Name() string { return "stub" }

var elig []int

// voidTargets: targets without results whose parameters are matchable (C04 "every signature": a
// conditional stub on them answers with nothing, or panics when nothing matches and there is no default).
var voidTargets []int

func matchable(t reflect.Type) bool {
	switch t.Kind() {
	case reflect.Int, reflect.Int8, reflect.Int16, reflect.Int32, reflect.Int64, reflect.Uint8, reflect.Uint16, reflect.Uint32, reflect.Uint64,
		reflect.String, reflect.Bool:
		return true
	case reflect.Struct:
		return t == reflect.TypeOf(fn.S1{}) || t == reflect.TypeOf(fn.S2{}) || t == reflect.TypeOf(fn.S3{})
	case reflect.Interface:
		return t.NumMethod() == 0
	case reflect.Float64:
		return true
	case reflect.Ptr:
		// matched by pointee: every value is a fresh pointer
		return t.Elem().Kind() == reflect.Int || t.Elem() == reflect.TypeOf(fn.S3{})
	case reflect.Slice:
		return t.Elem().Kind() == reflect.Uint8
	}
	return false
}

// Eligible returns the targets usable in this world: every (non-receiver) parameter has a small
// matchable domain and the first result can carry a unique id.
func Eligible() []int {
	if elig != nil {
		return elig
	}
	for _, t := range hist.Targets {
		ft := t.Typ
		if ft.NumOut() == 0 && t.Known == "" && t.Kind == "func" && ft.NumIn() > 0 && !ft.IsVariadic() {
			okv := true
			for i := 0; i < ft.NumIn(); i++ {
				if !matchable(ft.In(i)) {
					okv = false
				}
			}
			if okv {
				voidTargets = append(voidTargets, t.Idx)
			}
		}
		if t.FixArgs != nil {
			continue // needs argument normalisation that only world hist performs
		}
		if ft.NumOut() == 0 || t.Known != "" || t.Kind == "pkgfunc" || (t.Generic && simenv.RaceBuild) {
			continue // pkgfunc targets resolve relative to the package that calls goom (world hist only)
		}
		if t.IsMethod && (t.SkipRecv == nil || !t.SkipRecv(0)) {
			continue // As(sig) paths match the receiver as an ordinary first argument: covered as functions
		}
		k := ft.Out(0).Kind()
		if k != reflect.Int && k != reflect.String {
			continue
		}
		first := 0
		if t.IsMethod {
			first = 1
		}
		if ft.NumIn()-first == 0 {
			continue
		}
		ok := true
		for i := first; i < ft.NumIn(); i++ {
			pt := ft.In(i)
			if ft.IsVariadic() && i == ft.NumIn()-1 {
				pt = pt.Elem()
			}
			if !matchable(pt) {
				ok = false
			}
		}
		if ok {
			elig = append(elig, t.Idx)
		}
	}
	return elig
}

// small domains so that calls hit clauses often
func domain(r *rng.R, t reflect.Type) interface{} {
	switch t.Kind() {
	case reflect.String:
		return reflect.ValueOf([]string{"a", "b", "c", ""}[r.Intn(4)]).Convert(t).Interface()
	case reflect.Bool:
		return r.Intn(2) == 0
	case reflect.Struct:
		if t == reflect.TypeOf(fn.S1{}) {
			return fn.S1{A: r.Intn(3)}
		}
		if t == reflect.TypeOf(fn.S3{}) {
			return fn.S3{A: r.Intn(2), B: float64(r.Intn(2)) / 2, C: []string{"", "x"}[r.Intn(2)]}
		}
		return fn.S2{A: r.Intn(2), B: r.Intn(2)}
	case reflect.Float64:
		return reflect.ValueOf(float64(r.Intn(4)) / 2).Convert(t).Interface()
	case reflect.Ptr:
		// a fresh pointer every time: equal pointees, never the same address
		if t.Elem().Kind() == reflect.Int {
			p := reflect.New(t.Elem())
			p.Elem().SetInt(int64(r.Intn(3)))
			return p.Interface()
		}
		return &fn.S3{A: r.Intn(2), B: float64(r.Intn(2)) / 2, C: []string{"", "x"}[r.Intn(2)]}
	case reflect.Slice:
		return reflect.ValueOf([][]byte{{1}, {2}, {1, 2}}[r.Intn(3)]).Convert(t).Interface()
	case reflect.Interface:
		return r.Intn(4) // ints only: cross-kind equality is C18's business
	default:
		if t.Size() == 8 && r.Chance(120) {
			// neighbours beyond 2^53 and at the top of the range: equal as float64, different as integers
			big := []int64{1 << 53, 1<<53 + 1, 1<<63 - 1, 1<<63 - 2, -(1 << 53), -(1<<53 + 1)}
			v := big[r.Intn(len(big))]
			if t.Kind() == reflect.Uint64 || t.Kind() == reflect.Uint || t.Kind() == reflect.Uintptr {
				if v < 0 {
					v = -v
				}
				return reflect.ValueOf(uint64(v)).Convert(t).Interface()
			}
			return reflect.ValueOf(v).Convert(t).Interface()
		}
		return reflect.ValueOf(r.Intn(4)).Convert(t).Interface()
	}
}

// paramTypes returns the types of the matched argument positions for a call with nVar variadic
// elements (receiver skipped).
func paramTypes(t *hist.Target, nVar int) []reflect.Type {
	ft := t.Typ
	first := 0
	if t.IsMethod {
		first = 1
	}
	var ts []reflect.Type
	for i := first; i < ft.NumIn(); i++ {
		if ft.IsVariadic() && i == ft.NumIn()-1 {
			for j := 0; j < nVar; j++ {
				ts = append(ts, ft.In(i).Elem())
			}
		} else {
			ts = append(ts, ft.In(i))
		}
	}
	return ts
}

func minVar(t *hist.Target) int {
	// When(...) needs at least NumIn arguments, so a variadic clause has >= 1 variadic element
	if t.Typ.IsVariadic() {
		return 1
	}
	return 0
}

// clauseSpec is the generated description of one clause (explicit, derived from op seeds).
type clauseSpec struct {
	alts [][]model.ArgMatcher
	goom [][]interface{} // per alternative: the values / expressions handed to goom
}

func genAlt(r *rng.R, t *hist.Target, nested bool) ([]model.ArgMatcher, []interface{}) {
	nVar := 0
	if t.Typ.IsVariadic() {
		nVar = minVar(t) + r.Intn(3)
	}
	ts := paramTypes(t, nVar)
	ms := make([]model.ArgMatcher, len(ts))
	gs := make([]interface{}, len(ts))
	for i, pt := range ts {
		w3 := 20
		if !nested {
			w3 = 0 // arg.In inside an In(...) alternative is not a documented form
		}
		switch r.Pick(60, 20, w3) {
		case 0:
			v := domain(r, pt)
			ms[i] = model.ArgMatcher{Values: []interface{}{v}}
			gs[i] = v
		case 1:
			ms[i] = model.ArgMatcher{Any: true}
			gs[i] = arg.Any()
		case 2:
			a, b := domain(r, pt), domain(r, pt)
			ms[i] = model.ArgMatcher{Values: []interface{}{a, b}}
			gs[i] = arg.In(a, b)
		}
	}
	return ms, gs
}

func uniqueResults(r *rng.R, t *hist.Target, id int) []interface{} {
	res := val.GenResults(r, t.Typ)
	if t.Typ.NumOut() == 0 {
		return res
	}
	if t.Typ.Out(0).Kind() == reflect.Int {
		res[0] = reflect.ValueOf(id).Convert(t.Typ.Out(0)).Interface()
	} else {
		res[0] = reflect.ValueOf(fmt.Sprintf("id%d", id)).Convert(t.Typ.Out(0)).Interface()
	}
	return res
}

func idOf(v interface{}) int {
	rv := reflect.ValueOf(v)
	if rv.Kind() == reflect.Int {
		return int(rv.Int())
	}
	var id int
	if _, err := fmt.Sscanf(rv.String(), "id%d", &id); err != nil {
		return -1
	}
	return id
}

// Gen builds a plan: tasks[0] = configuration + sequential calls, tasks[1..K] = concurrent
// callers (C05 only), tasks[0] continues after the concurrent phase with op "join".
func (W) Gen(prop string, seed uint64, tier string) *world.Plan {
	r := rng.Derive(seed, 0x57b)
	p := &world.Plan{Prop: prop, World: "stub", Seed: seed, Knobs: map[string]int{}}
	el := Eligible()
	t := el[int(seed%uint64(len(el)))]
	if prop == "C04" && len(voidTargets) > 0 && seed%9 == 4 {
		t = voidTargets[int(seed/9)%len(voidTargets)]
	}
	p.Knobs["target"] = t
	p.Sched.GCPermille = []int{0, 0, 40}[r.Intn(3)]
	p.Sched.MaxGC = 3
	var ops []world.Op
	maxLen := 1
	if prop == "C05" {
		maxLen = 6
	} else if r.Chance(300) {
		maxLen = 3
	}
	seqLen := func() int {
		if maxLen == 1 {
			return 1
		}
		return 1 + r.Intn(maxLen)
	}
	if r.Chance(750) {
		ops = append(ops, world.Op{K: "cfgdef", N: seqLen(), F: r.Intn(2), V: r.U64()})
	}
	nCl := r.Intn(4)
	if prop == "C05" {
		nCl = r.Intn(3)
	}
	for i := 0; i < nCl; i++ {
		ops = append(ops, world.Op{K: "cfgwhen", N: seqLen(), F: r.Intn(3), V: r.U64(), W: r.U64()})
		// calls interleaved with configuration
		for j, n := 0, r.Intn(3); j < n; j++ {
			ops = append(ops, world.Op{K: "scall", F: r.Pick(70, 30), W: r.U64()})
		}
	}
	for j, n := 0, 2+r.Intn(12); j < n; j++ {
		ops = append(ops, world.Op{K: "scall", F: r.Pick(75, 25), W: r.U64()})
	}
	tasks := []world.Task{{Role: "config+sequential", Ops: ops}}
	if prop == "C05" && r.Chance(700) {
		k := 2 + r.Intn(3)
		p.Sched.Permille = []int{20, 100, 300, 1000}[r.Intn(4)]
		p.Knobs["samearg"] = r.Intn(2)
		for c := 0; c < k; c++ {
			var cops []world.Op
			for j, n := 0, 2+r.Intn(6); j < n; j++ {
				cops = append(cops, world.Op{K: "ccall", W: r.U64()})
			}
			tasks = append(tasks, world.Task{Role: "caller", Ops: cops})
		}
		var tail []world.Op
		for j, n := 0, 1+r.Intn(4); j < n; j++ {
			tail = append(tail, world.Op{K: "scall", F: 0, W: r.U64()})
		}
		tasks = append(tasks, world.Task{Role: "after", Ops: tail})
		if r.Chance(200) {
			// logging fixed before configuration: every call then passes through goom's debug wrapper,
			// inside which callers can be parked (console seam) while others call the same stub
			p.Knobs["logcfg"] = 1 + r.Intn(2)
		}
	}
	if len(tasks) == 1 && maxLen > 1 && r.Chance(350) {
		p.Knobs["dups"] = 1
	}
	p.Tasks = tasks
	return p
}

type exec struct {
	env    *world.Env
	p      *world.Plan
	t      *hist.Target
	b      *mocker.Builder
	stub   *model.Stub
	when   *mocker.When
	nextID int
	idPos  map[int][2]int // id -> (clause, position); clause -1 = default
	at     string
	seqLen map[int]int // clause -> sequence length
}

func (x *exec) fail(sig, format string, a ...interface{}) {
	x.env.Res.At = x.at
	x.env.Fail(sig, format, a...)
}

func catch(f func()) (pv interface{}) {
	defer func() { pv = recover() }()
	f()
	return nil
}

func (x *exec) seq(r *rng.R, n, clause int) [][]interface{} {
	out := make([][]interface{}, n)
	for i := range out {
		if i > 0 && x.p.Knobs["dups"] == 1 && r.Chance(450) {
			// a run of equal neighbours ("Returns(5, 5, 7)"): every element counts as a position of its
			// own (sequential plans only: the concurrent oracle attributes positions by unique values)
			out[i] = out[i-1]
			continue
		}
		x.nextID++
		out[i] = uniqueResults(r, x.t, x.nextID)
		x.idPos[x.nextID] = [2]int{clause, i}
	}
	x.seqLen[clause] = n
	return out
}

// applySeq hands a result sequence to goom in one of the documented forms, starting from w which
// is positioned on the clause (or on the default).
func applySeq(w *mocker.When, seq [][]interface{}, returns bool) *mocker.When {
	if returns && len(seq[0]) > 0 {
		vals := make([]interface{}, len(seq))
		for i, s := range seq {
			if len(s) == 1 {
				vals[i] = s[0]
			} else {
				vals[i] = s
			}
		}
		return w.Returns(vals...)
	}
	w = w.Return(seq[0]...)
	for _, s := range seq[1:] {
		w = w.AndReturn(s...)
	}
	return w
}

func (x *exec) configure(op world.Op) {
	r := rng.Derive(op.V, 3)
	m := x.t.Lookup(x.b, 0)
	switch op.K {
	case "cfgdef":
		seq := x.seq(r, op.N, -1)
		if op.F == 1 && len(seq[0]) > 0 {
			vals := make([]interface{}, len(seq))
			for i, s := range seq {
				if len(s) == 1 {
					vals[i] = s[0]
				} else {
					vals[i] = s
				}
			}
			x.when = m.Returns(vals...)
		} else {
			x.when = m.Return(seq[0]...)
			for _, s := range seq[1:] {
				x.when = x.when.AndReturn(s...)
			}
		}
		x.stub.Default = seq
		x.env.T("default %d", len(seq))
	case "cfgwhen":
		ci := len(x.stub.Clauses)
		seq := x.seq(r, op.N, ci)
		ar := rng.Derive(op.W, 4)
		cl := &model.Clause{Results: seq}
		if op.F == 2 {
			// In(alternatives...): started from a When(...) handle whose own matcher is replaced
			nAlt := 1 + ar.Intn(3)
			var galts []interface{}
			for i := 0; i < nAlt; i++ {
				ms, gs := genAlt(ar, x.t, false)
				cl.Alts = append(cl.Alts, ms)
				galts = append(galts, gs)
			}
			_, dummy := genAlt(ar, x.t, true)
			w := m.When(dummy...).In(galts...)
			x.when = applySeq(w, seq, ar.Intn(2) == 0)
			x.env.T("in %d alts", nAlt)
		} else {
			ms, gs := genAlt(ar, x.t, true)
			cl.Alts = [][]model.ArgMatcher{ms}
			w := m.When(gs...)
			x.when = applySeq(w, seq, op.F == 1)
			x.env.T("when %d args", len(gs))
		}
		x.stub.Clauses = append(x.stub.Clauses, cl)
	}
}

// genCallArgs returns (full argument list for the thunk, matched argument list for the model).
func (x *exec) genCallArgs(seed uint64) ([]interface{}, []interface{}) {
	r := rng.Derive(seed, 6)
	t := x.t
	// half of the calls replay a clause alternative (first value of each matcher), the rest is random
	var margs []interface{}
	if len(x.stub.Clauses) > 0 && r.Chance(550) {
		c := x.stub.Clauses[r.Intn(len(x.stub.Clauses))]
		alt := c.Alts[r.Intn(len(c.Alts))]
		nVar := 0
		if t.Typ.IsVariadic() {
			fixed := len(paramTypes(t, 0))
			nVar = len(alt) - fixed
		}
		ts := paramTypes(t, nVar)
		for i, m := range alt {
			if m.Any || r.Chance(100) {
				margs = append(margs, domain(r, ts[i]))
			} else {
				margs = append(margs, m.Values[r.Intn(len(m.Values))])
			}
		}
	} else {
		nVar := 0
		if t.Typ.IsVariadic() {
			nVar = r.Intn(4)
		}
		for _, pt := range paramTypes(t, nVar) {
			margs = append(margs, domain(r, pt))
		}
	}
	return x.pack(r, margs), margs
}

// pack turns matched arguments into the thunk's argument list (receiver, variadic slice).
func (x *exec) pack(r *rng.R, margs []interface{}) []interface{} {
	t := x.t
	ft := t.Typ
	var full []interface{}
	if t.IsMethod {
		full = append(full, val.Gen(r, ft.In(0)))
	}
	if !ft.IsVariadic() {
		return append(full, margs...)
	}
	fixed := len(paramTypes(t, 0))
	full = append(full, margs[:fixed]...)
	st := ft.In(ft.NumIn() - 1)
	sl := reflect.MakeSlice(st, 0, len(margs)-fixed)
	for _, e := range margs[fixed:] {
		ev := reflect.New(st.Elem()).Elem()
		ev.Set(reflect.ValueOf(e))
		sl = reflect.Append(sl, ev)
	}
	return append(full, sl.Interface())
}

func isNoCondition(pv interface{}) bool {
	s, ok := pv.(string)
	return ok && strings.Contains(s, "no suitable condition")
}

func (x *exec) scall(op world.Op) {
	full, margs := x.genCallArgs(op.W)
	want := x.stub.Call(margs)
	var got []interface{}
	var pv interface{}
	// Eval is not used for variadic targets (it cannot express the variadic tail) nor for methods
	// (it takes receiver-less arguments but the matchers strip a receiver again)
	useEval := op.F == 1 && x.when != nil && !x.t.Typ.IsVariadic() && !x.t.IsMethod
	if useEval {
		// Eval takes the variadic elements expanded
		pv = catch(func() { got = x.when.Eval(margs...) })
	} else {
		form := int(op.W % 3)
		pv = catch(func() { got = x.t.Call(form, full) })
	}
	x.env.Check()
	x.env.T("call %s eval=%v -> %s panic=%v", val.ShowList(margs), useEval, val.ShowList(got), pv != nil)
	if want.Panic {
		if pv == nil {
			x.fail("stub/no-panic", "%s(%s): no clause matches and there is no default: want a 'no suitable condition' panic, got %s", x.t.Name, val.ShowList(margs), val.ShowList(got))
		}
		if !isNoCondition(pv) {
			x.fail("stub/wrong-panic", "%s(%s): want a 'no suitable condition' panic, got panic: %v", x.t.Name, val.ShowList(margs), pv)
		}
		return
	}
	if pv != nil {
		x.fail("stub/panic", "%s(%s) panicked: %v (reference selects clause %d position %d)", x.t.Name, val.ShowList(margs), pv, want.Clause, want.Pos)
	}
	if len(want.Results) == 0 {
		// target without results: the call must simply answer (no panic), with nothing
		if len(got) != 0 {
			x.fail("stub/result", "%s(%s) has no results but the call produced %s", x.t.Name, val.ShowList(margs), val.ShowList(got))
		}
		return
	}
	if useEval {
		// Eval converts zero pointer/interface results to untyped nil: compare ids and the rest loosely
		if len(got) != len(want.Results) || idOf(got[0]) != idOf(want.Results[0]) {
			x.fail("stub/select", "Eval(%s) of %s = %s, want clause %d position %d = %s", val.ShowList(margs), x.t.Name, val.ShowList(got), want.Clause, want.Pos, val.ShowList(want.Results))
		}
		return
	}
	if len(got) != len(want.Results) || idOf(got[0]) != idOf(want.Results[0]) {
		cp := x.idPos[idOf(got[0])]
		x.fail("stub/select", "%s(%s) returned the result of clause %d position %d, reference selects clause %d position %d (got %s, want %s)", x.t.Name, val.ShowList(margs),
			cp[0], cp[1], want.Clause, want.Pos, val.ShowList(got), val.ShowList(want.Results))
	}
	for i := range got {
		w := want.Results[i]
		if w == nil {
			w = reflect.Zero(x.t.Typ.Out(i)).Interface()
		}
		if !val.Same(got[i], w, true) {
			x.fail("stub/result", "%s(%s): result %d = %s, configured %s", x.t.Name, val.ShowList(margs), i, val.Show(got[i]), val.Show(w))
		}
	}
}

// one concurrent call record
type crec struct {
	client   int
	inv, ret uint64
	clause   int
	pos      int
	panicked bool
	msg      string
}

// Exec runs the plan.
func (W) Exec(p *world.Plan, env *world.Env) {
	ti := p.Knobs["target"]
	if ti < 0 || ti >= len(hist.Targets) || len(p.Tasks) == 0 {
		env.Res.Verdict = "invalid"
		return
	}
	x := &exec{env: env, p: p, t: hist.Targets[ti], b: mocker.Create(), idPos: map[int][2]int{}, seqLen: map[int]int{}}
	x.stub = &model.Stub{HasResults: x.t.Typ.NumOut() > 0, Eq: func(a, b interface{}) bool { return val.Same(a, b, false) }}
	// well-formedness: default first, then clauses
	seenWhen := false
	for _, op := range p.Tasks[0].Ops {
		if op.K == "cfgwhen" {
			seenWhen = true
		}
		if op.K == "cfgdef" && seenWhen {
			env.Res.Verdict = "invalid"
			return
		}
	}
	nDef := 0
	for _, op := range p.Tasks[0].Ops {
		if op.K == "cfgdef" {
			nDef++
		}
	}
	if nDef > 1 {
		env.Res.Verdict = "invalid"
		return
	}
	if lc := p.Knobs["logcfg"]; lc > 0 {
		if lc == 1 {
			mocker.OpenDebug()
		} else {
			mocker.OpenTrace()
		}
		defer func() {
			mocker.CloseTrace()
			mocker.CloseDebug()
		}()
		env.Probe("stub_world_with_logging_on")
	}
	defer func() {
		// always leave the process clean for the next plan
		catch(func() { x.b.Reset() })
	}()
	phase := 0
	runSeq := func(ops []world.Op, label string) bool {
		task := func() {
			for i, op := range ops {
				x.at = fmt.Sprintf("%s op#%d %s", label, i, op.K)
				simcore.Yield(simcore.SiteOp, uintptr(i))
				switch op.K {
				case "cfgdef", "cfgwhen":
					x.configure(op)
				case "scall":
					if len(x.stub.Clauses) == 0 && x.stub.Default == nil {
						continue // nothing configured: the function is not mocked
					}
					x.scall(op)
				}
				env.Op()
			}
		}
		res := simcore.Run(p.PhaseConfig(phase), []func(){task})
		phase++
		env.Res.Merge(res)
		if pv := res.Panics[0]; pv != nil {
			if _, ok := pv.(world.Failure); !ok && !env.Failed() {
				env.Res.At = x.at
				env.FailNoUnwind("crash/panic", "unexpected panic at %s: %v", x.at, pv)
			}
		}
		return !env.Failed()
	}
	if !runSeq(p.Tasks[0].Ops, "seq") {
		return
	}
	env.Res.Nontriv = len(x.stub.Clauses) > 0 || len(x.stub.Default) > 1
	if len(p.Tasks) < 3 || (len(x.stub.Clauses) == 0 && x.stub.Default == nil) {
		return
	}
	// ---- concurrent phase
	callers := p.Tasks[1 : len(p.Tasks)-1]
	recs := make([][]crec, len(callers))
	var fixedArgs, fixedM []interface{}
	if p.Knobs["samearg"] == 1 {
		fixedArgs, fixedM = x.genCallArgs(p.Seed)
	}
	// the reference is consulted only for which clause a call selects (selection is
	// configuration-only and never changes during this phase)
	sel := func(margs []interface{}) int {
		probe := &model.Stub{Default: x.stub.Default, Clauses: nil, Eq: x.stub.Eq, HasResults: true}
		for _, c := range x.stub.Clauses {
			probe.Clauses = append(probe.Clauses, &model.Clause{Alts: c.Alts, Results: c.Results})
		}
		o := probe.Call(margs)
		if o.Panic {
			return -2
		}
		return o.Clause
	}
	var tasks []func()
	for ci, ct := range callers {
		ci, ct := ci, ct
		tasks = append(tasks, func() {
			for _, op := range ct.Ops {
				full, margs := fixedArgs, fixedM
				if full == nil {
					full, margs = x.genCallArgs(op.W)
				}
				simcore.Yield(simcore.SiteCall, 0)
				rec := crec{client: ci, clause: sel(margs)}
				rec.inv = simcore.Seq()
				var got []interface{}
				pv := catch(func() { got = x.t.Call(thunk.FormDirect, full) })
				rec.ret = simcore.Seq()
				if pv != nil {
					rec.panicked, rec.msg = true, fmt.Sprint(pv)
				} else if len(got) > 0 {
					cp, ok := x.idPos[idOf(got[0])]
					if !ok {
						rec.clause, rec.pos = -3, -1
						rec.msg = val.ShowList(got)
					} else {
						if cp[0] != rec.clause {
							rec.msg = fmt.Sprintf("selected clause %d, reference selects %d", cp[0], rec.clause)
							rec.clause = -4
						}
						rec.pos = cp[1]
					}
				}
				recs[ci] = append(recs[ci], rec)
			}
		})
	}
	x.at = "concurrent phase"
	res := simcore.Run(p.PhaseConfig(phase), tasks)
	phase++
	env.Res.Merge(res)
	for i, pv := range res.Panics[:len(tasks)] {
		if pv != nil {
			env.Res.At = x.at
			env.FailNoUnwind("crash/panic", "caller %d: unexpected panic: %v", i, pv)
			return
		}
	}
	env.Res.Nontriv = env.Res.Nontriv || res.Stats.Switches > 0
	// ---- oracle over the recorded history
	byClause := map[int][]porcupine.Operation{}
	total := 0
	for _, rs := range recs {
		for _, rc := range rs {
			total++
			env.Check()
			// positions depend on the interleaving, and the interleaving legitimately depends on the
			// logging configuration (more yield points): the transcript keeps schedule-independent facts
			env.T("ccall c%d clause=%d panic=%v", rc.client, rc.clause, rc.panicked)
			if rc.clause == -2 {
				if !rc.panicked || !strings.Contains(rc.msg, "no suitable condition") {
					env.Res.At = x.at
					env.FailNoUnwind("stub/no-panic", "concurrent call that no clause matches (no default): want the 'no suitable condition' panic, got pos %d %s", rc.pos, rc.msg)
					return
				}
				continue
			}
			if rc.panicked {
				env.Res.At = x.at
				env.FailNoUnwind("seq/panic", "concurrent call of %s panicked: %s", x.t.Name, rc.msg)
				return
			}
			if rc.clause == -3 {
				env.Res.At = x.at
				env.FailNoUnwind("seq/not-an-element", "concurrent call of %s returned %s, which is not an element of any configured sequence", x.t.Name, rc.msg)
				return
			}
			if rc.clause == -4 {
				env.Res.At = x.at
				env.FailNoUnwind("stub/select", "concurrent call of %s: %s", x.t.Name, rc.msg)
				return
			}
			byClause[rc.clause] = append(byClause[rc.clause], porcupine.Operation{ClientId: rc.client, Input: x.seqLen[rc.clause], Call: int64(rc.inv), Output: rc.pos, Return: int64(rc.ret)})
		}
	}
	for cl, ops := range byClause {
		if len(ops) > 64 {
			ops = ops[:64]
		}
		start := 0
		// cursor position reached by the sequential phase
		if cl == -1 {
			start = x.stub.DefCursor
		} else {
			start = x.stub.Clauses[cl].Cursor
		}
		// the sequential phase may have served start-1 as its highest position
		m := porcupine.Model{
			Init: func() interface{} { return start - 1 },
			Step: func(state, input, output interface{}) (bool, interface{}) {
				st, n, pos := state.(int), input.(int), output.(int)
				if pos < 0 || pos > n-1 || pos < st {
					return false, st
				}
				return true, pos
			},
			Equal: func(a, b interface{}) bool { return a.(int) == b.(int) },
		}
		r := porcupine.CheckOperationsTimeout(m, ops, 20*time.Second)
		env.Check()
		if r == porcupine.Illegal {
			env.Res.At = x.at
			env.FailNoUnwind("seq/not-linearizable", "concurrent history of clause %d of %s is not explained by the sequence model (positions must stay within 0..n-1 and never go backwards): %s", cl, x.t.Name, histString(ops))
			return
		}
		if r == porcupine.Unknown {
			env.Probe("porcupine_unknown")
		}
		// equivalent pairwise criterion
		for i := range ops {
			for j := range ops {
				if ops[i].Return < ops[j].Call && ops[i].Output.(int) > ops[j].Output.(int) {
					env.Res.At = x.at
					env.FailNoUnwind("seq/backwards", "a call that returned position %d finished before a call that returned position %d started: %s", ops[i].Output, ops[j].Output, histString(ops))
					return
				}
			}
		}
		// advance the model cursor past the concurrent phase: highest position returned
		hi := start - 1
		for _, o := range ops {
			if o.Output.(int) > hi {
				hi = o.Output.(int)
			}
		}
		// after the phase the next sequential position is in [hi, n-1]; record the lower bound
		if cl == -1 {
			x.stub.DefCursor = -1 - hi // marker: relaxed
		} else {
			x.stub.Clauses[cl].Cursor = -1 - hi
		}
	}
	env.Probe(fmt.Sprintf("concurrent_calls_%d", bucket(total)))
	// ---- after phase: positions must not go backwards and stay in range (relaxed check)
	tail := p.Tasks[len(p.Tasks)-1].Ops
	task := func() {
		for i, op := range tail {
			x.at = fmt.Sprintf("after op#%d", i)
			full, margs := x.genCallArgs(op.W)
			cl := sel(margs)
			var got []interface{}
			pv := catch(func() { got = x.t.Call(thunk.FormDirect, full) })
			env.Check()
			if cl == -2 {
				if pv == nil || !isNoCondition(pv) {
					x.fail("stub/no-panic", "call after the concurrent phase: want 'no suitable condition' panic")
				}
				continue
			}
			if pv != nil {
				x.fail("seq/panic", "call after the concurrent phase panicked: %v", pv)
			}
			cp, ok := x.idPos[idOf(got[0])]
			if !ok || cp[0] != cl {
				x.fail("stub/select", "call after the concurrent phase returned %s (clause %d), reference selects clause %d", val.ShowList(got), cp[0], cl)
			}
			var cur *int
			if cl == -1 {
				cur = &x.stub.DefCursor
			} else {
				cur = &x.stub.Clauses[cl].Cursor
			}
			lo := 0
			if *cur < 0 {
				lo = -1 - *cur
			} else if *cur > 0 {
				lo = *cur - 1
			}
			n := x.seqLen[cl]
			if cp[1] < lo || cp[1] > n-1 {
				x.fail("seq/backwards", "after the concurrent phase position %d was served although position %d had already been returned (n=%d)", cp[1], lo, n)
			}
			*cur = -1 - cp[1]
			env.Op()
		}
	}
	res = simcore.Run(p.PhaseConfig(phase), []func(){task})
	env.Res.Merge(res)
	if pv := res.Panics[0]; pv != nil {
		if _, ok := pv.(world.Failure); !ok && !env.Failed() {
			env.Res.At = x.at
			env.FailNoUnwind("crash/panic", "unexpected panic at %s: %v", x.at, pv)
		}
	}
}

func bucket(n int) int {
	switch {
	case n < 8:
		return 8
	case n < 16:
		return 16
	default:
		return 32
	}
}

func histString(ops []porcupine.Operation) string {
	var sb strings.Builder
	for _, o := range ops {
		fmt.Fprintf(&sb, "[c%d inv=%d ret=%d pos=%d] ", o.ClientId, o.Call, o.Return, o.Output)
	}
	return sb.String()
}
