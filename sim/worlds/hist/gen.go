package hist

import (
	"github.com/tencent/goom/verifsim/rng"
	"github.com/tencent/goom/verifsim/simenv"
	"github.com/tencent/goom/verifsim/world"
)

// gstate is the generator-side view of one target: it encodes the well-formedness rules of
// Appendix F of DESIGN.md (what the property statements define an outcome for).
type gstate struct {
	kind      int
	owner     int  // builder, -1 none, -2 orphan (its builder was dropped)
	touched   int  // live builder that has looked this target up (-1 none); others must not touch it
	stubEpoch bool // a stub is configured in the current epoch of the owner's mocker
	nClauses  int
	how       int // lookup path used for this target in this history (-1 not fixed yet)
	// kept-handle bookkeeping: the caller keeps the mocker returned by a fresh-lookup apply
	handle     bool // such a handle exists and is still the builder's cache entry for the target
	handleDead bool // it has been cancelled and no fresh lookup has replaced it yet
	handleMode bool // the live patch was installed through the cancelled handle: only the handle may touch the target
	hadBad     bool // a rejected configuration was attempted on this target: the by-name lookup path cannot be used
}

type gmodel struct {
	gs map[int]*gstate
}

func newGModel() *gmodel { return &gmodel{gs: map[int]*gstate{}} }

func (m *gmodel) g(t int) *gstate {
	g := m.gs[t]
	if g == nil {
		g = &gstate{owner: -1, touched: -1, how: -1}
		m.gs[t] = g
	}
	return g
}

func (m *gmodel) usable(t, b int) bool {
	g := m.g(t)
	if g.owner == -2 {
		return true // orphan: hand-off to any builder
	}
	if g.owner >= 0 {
		return g.owner == b
	}
	return g.touched == -1 || g.touched == b
}

// step applies op to the generator model; false means the operation is not well-formed here.
func (m *gmodel) step(op world.Op) bool {
	if op.T < 0 || op.T >= len(Targets) {
		return false
	}
	t := Targets[op.T]
	switch op.K {
	case "apply", "ret", "retseq", "when", "cancel":
		// one lookup path per target and history: two paths create two unrelated mockers
		g := m.g(op.T)
		if op.N < 0 || op.N >= t.NumHow || (g.how >= 0 && g.how != op.N) {
			return false
		}
		if op.K == "when" && t.SkipRecv != nil && !t.SkipRecv(op.N) {
			return false // clause arguments would have to include a receiver value
		}
		if op.K != "apply" && op.K != "cancel" && t.ApplyOnly != nil && t.ApplyOnly(op.N) {
			return false
		}
		if g.hadBad && t.ByName != nil && t.ByName(op.N) {
			return false // rejected configurations go through the history's lookup path; by name goom cannot type-check
		}
	}
	if gg := m.g(op.T); gg.handleMode {
		// only the kept handle (or a whole-builder operation) may touch the target now
		switch op.K {
		case "ret", "when", "bad":
			return false
		case "apply", "cancel":
			if op.F&2 == 0 {
				return false
			}
		}
	}
	switch op.K {
	case "apply":
		if !m.usable(op.T, op.B) {
			return false
		}
		if op.F&1 == 1 && (t.Generic || t.NoOrigin) {
			return false // S12: the origin placeholder of a generic method lacks the hidden dictionary argument
		}
		g := m.g(op.T)
		if op.F&2 != 0 {
			if !g.handle || !g.handleDead || g.touched != op.B {
				return false
			}
			g.handleMode, g.handleDead = true, false
		} else {
			g.handle, g.handleDead, g.handleMode = true, false, false
		}
		g.kind, g.owner, g.touched, g.stubEpoch, g.nClauses = kCb, op.B, op.B, false, 0
	case "ret", "retseq":
		g := m.g(op.T)
		if !m.usable(op.T, op.B) || g.stubEpoch || (t.Typ.NumOut() == 0 && op.K == "retseq") {
			return false
		}
		g.kind, g.owner, g.touched, g.stubEpoch, g.nClauses = kStub, op.B, op.B, true, 0
		g.handle, g.handleDead = false, false
	case "when":
		g := m.g(op.T)
		if !m.usable(op.T, op.B) || !t.Simple || g.nClauses >= 2 {
			return false
		}
		if g.kind != kStub {
			g.nClauses = 0
		}
		g.kind, g.owner, g.touched, g.stubEpoch = kStub, op.B, op.B, true
		if g.handleDead {
			g.handle, g.handleDead = false, false // a fresh lookup replaced the cancelled cache entry
		}
		g.nClauses++
	case "cancel":
		g := m.g(op.T)
		if g.owner == -2 || !m.usable(op.T, op.B) {
			return false
		}
		if op.F&2 != 0 {
			if !g.handle || g.owner != op.B || g.kind != kCb {
				return false
			}
			g.handleMode = false
			g.handleDead = true
		} else if g.owner == op.B && g.kind == kCb && g.handle {
			g.handleDead = true // the cached mocker (== the handle) is cancelled
		} else {
			g.handle, g.handleDead = false, false
		}
		if g.owner == op.B {
			g.kind, g.owner, g.stubEpoch, g.nClauses = kOrig, -1, false, 0
		}
		g.touched = op.B
	case "reset":
		for _, g := range m.gs {
			if g.touched == op.B || g.owner == op.B {
				g.handle, g.handleDead, g.handleMode = false, false, false
			}
			if g.owner == op.B {
				g.kind, g.owner, g.stubEpoch, g.nClauses = kOrig, -1, false, 0
			}
			if op.N == 1 && g.touched == op.B {
				g.touched = -1
			}
		}
	case "dropref":
		for _, g := range m.gs {
			if g.touched == op.B || g.owner == op.B {
				g.handle, g.handleDead, g.handleMode = false, false, false
			}
			if g.owner == op.B {
				g.owner = -2
			}
			if g.touched == op.B {
				g.touched = -1
			}
		}
	case "bad":
		g := m.g(op.T)
		if g.owner == -2 || !m.usable(op.T, op.B) {
			return false
		}
		if g.how >= 0 && t.ByName != nil && t.ByName(g.how) {
			return false
		}
		g.hadBad = true
		if g.handleDead {
			g.handle, g.handleDead = false, false
		}
		g.touched = op.B
	case "pkglookup":
		// the lookup that consumes the override must not itself depend on the package, and it must be
		// a lookup this history may legitimately make (same builder / lookup path rules as a cancel)
		g := m.g(op.T)
		if t.Kind == "pkgfunc" || t.Kind == "method" && t.SkipRecv != nil && !t.SkipRecv(op.N) || g.owner == -2 || !m.usable(op.T, op.B) || g.handleMode {
			return false
		}
		if op.N < 0 || op.N >= t.NumHow || (g.how >= 0 && g.how != op.N) {
			return false
		}
		if g.handleDead {
			g.handle, g.handleDead = false, false // a fresh lookup replaces the cancelled cache entry
		}
		g.how, g.touched = op.N, op.B
	case "call", "checkall", "gc", "grow", "log":
	default:
		return false
	}
	switch op.K {
	case "apply", "ret", "retseq", "when", "cancel":
		m.g(op.T).how = op.N
	}
	return true
}

// ResolveNames lets hand-written plans (known-finding witnesses) name their targets: an
// operation with a non-empty S field on a target operation gets T from the corpus by name.
func ResolveNames(p *world.Plan) {
	for ti := range p.Tasks {
		for oi := range p.Tasks[ti].Ops {
			op := &p.Tasks[ti].Ops[oi]
			if op.S == "" {
				continue
			}
			switch op.K {
			case "apply", "ret", "retseq", "when", "cancel", "call", "bad":
				for _, t := range Targets {
					if t.Name == op.S {
						op.T = t.Idx
					}
				}
			}
		}
	}
}

// WellFormed reports whether the history obeys the generator's grammar (used to reject
// candidates produced by the minimiser).
func WellFormed(p *world.Plan) bool {
	if len(p.Tasks) != 1 {
		return false
	}
	ResolveNames(p)
	m := newGModel()
	for _, op := range p.Tasks[0].Ops {
		if !m.step(op) {
			return false
		}
	}
	return true
}

// Gen builds a well-formed history for prop.
func (W) Gen(prop string, seed uint64, tier string) *world.Plan {
	r := rng.Derive(seed, 0x4157)
	if (prop == "C01" || prop == "C06") && r.Chance(120) {
		// "from any goroutine" / "for every instance": a share of the plans runs the same targets in
		// the concurrent world (several mocker tasks with their own builders plus caller tasks)
		if cw := world.Get("conc"); cw != nil {
			return cw.Gen(prop, seed, tier)
		}
	}
	p := &world.Plan{Prop: prop, World: "hist", Seed: seed, Knobs: map[string]int{}}
	// swarm knobs
	p.Sched.GCPermille = []int{0, 0, 30, 150}[r.Intn(4)]
	p.Sched.GrowPermille = []int{0, 0, 30}[r.Intn(3)]
	p.Sched.MaxGC = 4
	if prop == "C02" && r.Chance(200) {
		// fault configuration: mprotect fails with a seeded errno on a few calls; an operation may
		// then fail, after which the entry must be all-old or all-new and a later Cancel / Reset
		// must still restore it
		p.Knobs["faults"] = 1
		p.Sched.FaultPermille = map[string]int{"mprotect": []int{30, 100}[r.Intn(2)]}
		p.Sched.FaultKinds = map[string][]int{"mprotect": {1, 2}}
		p.Sched.MaxFaults = 1 + r.Intn(3)
	}
	nB := 1 + r.Intn(3)
	if prop == "C01" {
		nB = 1 + r.Intn(2)
	}
	corpus := candidates(prop)
	nT := 2 + r.Intn(5)
	var tg []int
	tg = append(tg, corpus[int(seed%uint64(len(corpus)))])
	var cached []int // targets reached through a caching lookup (Struct / ExportStruct / ExportFunc)
	for _, c := range corpus {
		if Targets[c].Kind != "func" {
			cached = append(cached, c)
		}
	}
	for len(tg) < nT {
		c := corpus[r.Intn(len(corpus))]
		if prop == "C12" && len(cached) > 0 && r.Chance(600) {
			c = cached[r.Intn(len(cached))] // C12 is about lookups: prefer the paths that cache per type / name
		}
		dup := false
		for _, e := range tg {
			if e == c {
				dup = true
			}
			for _, mt := range Targets[e].Mates {
				if mt == c {
					dup = true // two instantiations of one shape body are one patch target
				}
			}
		}
		if !dup {
			tg = append(tg, c)
		}
	}
	if prop == "C12" && r.Chance(500) {
		tg = append(tg, PkgLocal)
		if r.Chance(500) {
			tg = append(tg, PkgOther)
		}
	}
	m := newGModel()
	nOps := 6 + r.Intn(30)
	if tier == "thorough" {
		nOps = 6 + r.Intn(50)
	}
	var ops []world.Op
	// weights per property: apply, ret, when, cancel, reset, call, checkall, gc, grow, dropref, bad, log, pkglookup
	wts := map[string][]int{
		"C01": {14, 6, 4, 4, 2, 40, 6, 8, 6, 4, 0, 3, 1},
		"C02": {18, 8, 6, 12, 8, 14, 8, 4, 2, 3, 0, 0, 1},
		"C06": {16, 8, 6, 6, 4, 30, 10, 4, 2, 2, 0, 0, 1},
		"C12": {16, 14, 12, 8, 6, 14, 6, 2, 0, 0, 0, 0, 8},
		"C13": {10, 6, 4, 4, 4, 8, 4, 2, 0, 0, 30, 0, 1},
		"C19": {14, 8, 8, 4, 3, 30, 6, 2, 0, 0, 0, 10, 1},
	}[prop]
	if wts == nil {
		wts = []int{14, 8, 6, 6, 4, 30, 8, 4, 2, 2, 0, 0, 1}
	}
	howOf := map[int]int{}
	for _, t := range tg {
		howOf[t] = r.Intn(Targets[t].NumHow)
	}
	pickB := func(t int) int {
		g := m.g(t)
		if g.owner >= 0 {
			return g.owner
		}
		if g.owner != -2 && g.touched >= 0 {
			return g.touched
		}
		return r.Intn(nB)
	}
	tries := 0
	for len(ops) < nOps && tries < 2000 {
		tries++
		var op world.Op
		t := tg[r.Intn(len(tg))]
		switch r.Pick(wts...) {
		case 0:
			origin := 0
			if r.Chance(250) && prop != "C19" {
				origin = 1
			}
			op = world.Op{K: "apply", B: pickB(t), T: t, F: origin, N: howOf[t], V: r.U64(), W: r.U64()}
			if gg := m.g(t); gg.handle && gg.handleDead && r.Chance(600) {
				op.F |= 2 // re-apply through the kept (cancelled) handle
			}
		case 1:
			op = world.Op{K: "ret", B: pickB(t), T: t, N: howOf[t], V: r.U64(), W: r.U64()}
			if r.Chance(250) {
				op.K = "retseq"
			}
		case 2:
			op = world.Op{K: "when", B: pickB(t), T: t, N: howOf[t], V: r.U64(), W: r.U64()}
		case 3:
			op = world.Op{K: "cancel", B: pickB(t), T: t, N: howOf[t], W: r.U64()}
			if gg := m.g(t); gg.handle && gg.kind == kCb && r.Chance(500) {
				op.F = 2 // cancel through the kept handle
			}
		case 4:
			op = world.Op{K: "reset", B: r.Intn(nB)}
			if r.Chance(200) && m.step(op) {
				ops = append(ops, op) // double reset
			}
			if r.Chance(300) {
				op.N = 1 // retire the builder object afterwards
			}
		case 5:
			hit := 0
			if m.g(t).nClauses > 0 && r.Chance(500) {
				hit = 1
			}
			op = world.Op{K: "call", T: t, F: r.Pick(30, 15, 10, 15, 8, 6), W: r.U64(), N: hit}
		case 6:
			op = world.Op{K: "checkall", W: r.U64()}
		case 7:
			op = world.Op{K: "gc"}
		case 8:
			op = world.Op{K: "grow", N: 1 + r.Intn(40)}
		case 9:
			op = world.Op{K: "dropref", B: r.Intn(nB)}
		case 10:
			op = world.Op{K: "bad", B: pickB(t), T: t, N: r.Intn(15), V: r.U64(), W: r.U64()}
		case 11:
			op = world.Op{K: "log", N: r.Intn(3)}
		case 12:
			op = world.Op{K: "pkglookup", B: pickB(t), T: t, N: howOf[t]}
		}
		if m.step(op) {
			ops = append(ops, op)
		}
	}
	p.Tasks = []world.Task{{Role: "history", Ops: ops}}
	return p
}

func candidates(prop string) []int {
	var out []int
	for _, t := range Targets {
		if t.Known != "" {
			continue // only the known finding's witness plan uses these
		}
		if t.Generic && simenv.RaceBuild {
			// under -race the instantiation wrapper starts with a call into the race runtime, which
			// goom's "first CALL in the wrapper" heuristic mistakes for the shape body: mocking a
			// generic method in a race build patches runtime.racefuncenter (observed: unbounded
			// recursion). A limitation of goom under -race, outside every statement; not generated.
			continue
		}
		switch prop {
		case "C06":
			if t.Kind != "func" {
				out = append(out, t.Idx)
			}
		default:
			out = append(out, t.Idx)
		}
	}
	if len(out) == 0 {
		for _, t := range Targets {
			out = append(out, t.Idx)
		}
	}
	return out
}
