package hist

import (
	"fmt"
	"reflect"
	"sort"
	"strings"
	"unsafe"

	mocker "github.com/tencent/goom"
	"github.com/tencent/goom/erro"
	"github.com/tencent/goom/verifsim/model"
	"github.com/tencent/goom/verifsim/rng"
	"github.com/tencent/goom/verifsim/simcore"
	"github.com/tencent/goom/verifsim/simenv"
	"github.com/tencent/goom/verifsim/val"
	"github.com/tencent/goom/verifsim/world"
	"github.com/tencent/goom/verifsim/zoo/fn"
	"github.com/tencent/goom/verifsim/zoo/fn2"
	"github.com/tencent/goom/verifsim/zoo/ifc"
	"github.com/tencent/goom/verifsim/zoo/thunk"
)

// W is the world.
type W struct{}

func init() {
	world.Register(W{})
	for _, p := range []string{"C01", "C02", "C06", "C12", "C13"} {
		world.PropWorld[p] = "hist"
	}
}

// Name of the world.
func (W) Name() string { return "hist" }

// target states
const (
	kOrig = iota
	kCb
	kCbOrigin
	kStub
	kUnknown // an operation on this target failed under an injected mprotect fault: entry is pristine or a full jump
)

type tstate struct {
	skipRecv bool // stub configured through a path that ignores the receiver when matching
	kind     int
	owner    int // builder index; -2: orphan (its builder was dropped)
	rec      *thunk.Rec
	stub     *model.Stub
	results  []interface{}
}

// Exec interprets history operations for one task against goom and the model.
type Exec struct {
	env *world.Env
	p   *world.Plan
	// Foreign returns regions owned by other tasks (conc world); nil in sequential worlds.
	Foreign func() []simenv.Region
	Ops     []world.Op
	Label   string
	// Deep > 0: calls are issued on a fresh goroutine below Deep filler frames (+ Fine*16 bytes)
	Deep, Fine int
	// Faults: mprotect errno injection is enabled for this history (C02 fault configuration)
	Faults       bool
	builders     []*mocker.Builder
	st           map[int]*tstate
	phUsed       map[int]bool
	keep         []interface{}                    // callbacks kept alive by the harness (dropped by dropref)
	ifaceBuilder *mocker.Builder                  // builder used by the rejected interface configurations (bad kinds 12-14)
	handles      map[[2]int]mocker.ExportedMocker // mocker handle returned by the last fresh-lookup apply per (builder, target)
	// hmode: the live patch of (builder, target) was installed through a cancelled kept handle and no
	// Cancel through that handle / Reset of the builder has SUCCEEDED since. The generator only lets
	// the handle touch such a target; after a faulted operation the generator's view is ahead of the
	// process, so the executor enforces the rule itself (fault configuration only).
	hmode map[[2]int]bool
	// opFailed: some operation of this history failed under an injected fault. From then on the
	// generator's bookkeeping of kept handles no longer describes the process (it assumed the
	// operation succeeded), so operations through a kept handle are no longer issued: a kept-handle
	// Apply is skipped and a kept-handle Cancel becomes an ordinary lookup + Cancel (hmode excepted).
	opFailed bool
	opi      int
}

func (x *Exec) state(t int) *tstate {
	s := x.st[t]
	if s == nil {
		s = &tstate{kind: kOrig, owner: -1}
		x.st[t] = s
	}
	return s
}

// phEver is process-global: the body of an origin placeholder stays rewritten for the life of
// the process (the property allows exactly that).
var phEver = map[int]bool{}

// how returns the lookup path this history uses for target ti (fixed per history).
func (x *Exec) how(ti int) int {
	for _, op := range x.Ops {
		if op.T == ti {
			switch op.K {
			case "apply", "ret", "retseq", "when", "cancel":
				return op.N
			}
		}
	}
	return 0
}

// NewExec creates an interpreter for ops.
func NewExec(env *world.Env, p *world.Plan, ops []world.Op) *Exec {
	return &Exec{env: env, p: p, Ops: ops, st: map[int]*tstate{}, phUsed: map[int]bool{}, handles: map[[2]int]mocker.ExportedMocker{}, hmode: map[[2]int]bool{}}
}

// Mocked reports whether the model says target ti is currently mocked by this interpreter.
func (x *Exec) Mocked(ti int) bool {
	s := x.st[ti]
	return s != nil && s.kind != kOrig
}

// TargetsTouched lists the targets this interpreter has state for.
func (x *Exec) TargetsTouched() []int { return x.sortedTargets() }

func (x *Exec) sortedTargets() []int {
	out := make([]int, 0, len(x.st))
	for ti := range x.st {
		out = append(out, ti)
	}
	sort.Ints(out)
	return out
}

func (x *Exec) regions() []simenv.Region {
	rs := x.ownRegions()
	if x.Foreign != nil {
		rs = append(rs, x.Foreign()...)
	}
	return rs
}

func (x *Exec) ownRegions() []simenv.Region {
	var rs []simenv.Region
	for ti, s := range x.st {
		if s.kind != kOrig {
			rs = append(rs, simenv.Region{Addr: Targets[ti].Entry, Len: 13, Kind: simenv.RegionJump, Name: Targets[ti].Name})
		}
	}
	for ti := range phEver {
		t := Targets[ti]
		rs = append(rs, simenv.Region{Addr: t.PhEntry, Len: int(x.env.Image.Extent(t.PhEntry)), Kind: simenv.RegionAny, Name: "placeholder of " + t.Name})
	}
	return rs
}

func (x *Exec) at() string {
	if x.opi < len(x.Ops) {
		op := x.Ops[x.opi]
		return fmt.Sprintf("%sop#%d %s", x.Label, x.opi, opString(op))
	}
	return x.Label + "final"
}

func opString(op world.Op) string {
	name := ""
	if op.K != "reset" && op.K != "gc" && op.K != "grow" && op.K != "dropref" && op.K != "log" && op.K != "checkall" && op.T < len(Targets) {
		name = " " + shortName(Targets[op.T].Name)
	}
	return fmt.Sprintf("%s b%d%s f%d n%d", op.K, op.B, name, op.F, op.N)
}

func shortName(n string) string {
	if i := strings.LastIndex(n, "/"); i >= 0 {
		return n[i+1:]
	}
	return n
}

func (x *Exec) fail(sig, format string, a ...interface{}) {
	x.env.FailAt(x.at(), sig, format, a...)
}

// checkImage evaluates the text-image and page oracles.
func (x *Exec) checkImage() {
	x.env.Check()
	if msg := x.env.Image.Check(x.regions()); msg != "" {
		x.fail("image/stray", "%s", msg)
	}
	// while another task is parked inside a write the seam knows of RWX pages: only "executable"
	// can be required then; otherwise no text page may be writable
	if msg := x.env.Image.CheckPages(simcore.InRWXWindow() || x.Faults); msg != "" {
		x.fail("pages/writable", "%s", msg)
	}
}

// guarded runs one goom operation. In the fault configuration an operation may fail because an
// injected mprotect error made memory.WriteTo panic; that is reported as faulted == true. Any
// other panic propagates.
func (x *Exec) guarded(f func()) (faulted bool) {
	if !x.Faults {
		f()
		return false
	}
	before := simcore.FaultsFired()
	pv := catchCall(f)
	if pv == nil {
		return false
	}
	if simcore.FaultsFired() > before && strings.Contains(fmt.Sprint(pv), "access mem error") {
		x.env.Probe("operation_failed_under_mprotect_fault")
		x.opFailed = true
		return true
	}
	panic(pv)
}

// unknown marks a target whose last operation failed under an injected fault.
func (x *Exec) unknown(ti, b int) {
	s := x.state(ti)
	*s = tstate{kind: kUnknown, owner: b}
}

func catchCall(f func()) (pv interface{}) {
	defer func() { pv = recover() }()
	f()
	return nil
}

func isNoCondition(pv interface{}) bool {
	s, ok := pv.(string)
	return ok && strings.Contains(s, "no suitable condition")
}

// callTarget calls target ti in the given form and checks the outcome against the model.
func (x *Exec) callTarget(ti, form int, argSeed uint64, hit bool) {
	t := Targets[ti]
	s := x.state(ti)
	if s.kind == kUnknown {
		return
	}
	if s.kind == kOrig {
		for _, m := range t.Mates {
			if ms := x.st[m]; ms != nil && ms.kind != kOrig {
				return // an instantiation of the same GC shape is mocked: behaviour unspecified
			}
		}
	}
	args := val.GenArgs(rng.Derive(argSeed, 11), t.Typ)
	if t.FixArgs != nil {
		t.FixArgs(args)
	}
	if hit && s.kind == kStub && len(s.stub.Clauses) > 0 {
		c := s.stub.Clauses[int(argSeed%uint64(len(s.stub.Clauses)))]
		args = nil
		if s.skipRecv {
			args = append(args, val.Gen(rng.Derive(argSeed, 12), t.Typ.In(0)))
		}
		for _, m := range c.Alts[0] {
			args = append(args, m.Values[0])
		}
		if t.FixArgs != nil {
			t.FixArgs(args)
		}
	}
	if s.kind == kCbOrigin && form == thunk.FormGo {
		form = thunk.FormDirect // low stack headroom at an origin call belongs to world "origin" (C03)
	}
	if form == thunk.FormDeferDirect && s.kind == kStub {
		form = thunk.FormDefer // a panicking stub inside `defer f()` would be lost
	}
	before := t.RanCount()
	if s.rec != nil {
		s.rec.Snapshot()
		s.rec.ResetDepth()
	}
	var got []interface{}
	var pv interface{}
	if x.Deep > 0 {
		// world "origin": call on a fresh goroutine below a filler recursion of seeded depth, so that
		// the stack check relocated into the trampoline runs with every possible headroom
		form = thunk.FormDirect
		pv = catchCall(func() { runDeep(x.Deep, x.Fine, func() { got = t.Call(thunk.FormDirect, args) }) })
	} else {
		if s.kind == kCbOrigin {
			reserveStack()
		}
		pv = catchCall(func() { got = t.Call(form, args) })
	}
	ran := t.RanCount() - before
	x.env.Check()
	x.env.T("call %s form=%d args=%s -> %s panic=%v", shortName(t.Name), form, val.ShowList(args), val.ShowList(got), pv != nil)
	noRes := form == thunk.FormDeferDirect
	switch s.kind {
	case kOrig:
		if pv != nil {
			x.fail("behaviour/orig-panic", "un-mocked %s panicked: %v", t.Name, pv)
		}
		if ran != 1 && !t.NoRan {
			x.fail("behaviour/orig-not-run", "un-mocked %s: original body ran %d times for one call", t.Name, ran)
		}
		if !noRes && !val.SameList(got, t.Ref(args), false) {
			x.fail("behaviour/orig-result", "un-mocked %s(%s) = %s, want %s", t.Name, val.ShowList(args), val.ShowList(got), val.ShowList(t.Ref(args)))
		}
	case kCb:
		if pv != nil {
			x.fail("behaviour/cb-panic", "mocked %s panicked: %v", t.Name, pv)
		}
		calls, seen, _ := s.rec.Snapshot()
		if ran != 0 && !t.NoRan {
			x.fail("behaviour/orig-ran", "mocked %s: the original body ran (%d times) although a callback is applied", t.Name, ran)
		}
		if calls != 1 {
			x.fail("behaviour/cb-count", "mocked %s: callback ran %d times for one call (form %s)", t.Name, calls, thunk.FormNames[form])
		}
		if !t.ArgsUnchecked && !val.SameList(seen, args, true) {
			x.fail("behaviour/cb-args", "mocked %s: callback saw %s, caller passed %s (form %s)", t.Name, val.ShowList(seen), val.ShowList(args), thunk.FormNames[form])
		}
		if !noRes && !val.SameList(got, s.results, true) {
			x.fail("behaviour/cb-results", "mocked %s: caller got %s, callback returned %s (form %s)", t.Name, val.ShowList(got), val.ShowList(s.results), thunk.FormNames[form])
		}
	case kCbOrigin:
		if pv != nil {
			x.fail("behaviour/cb-panic", "mocked %s (origin callback) panicked: %v", t.Name, pv)
		}
		calls, seen, ores := s.rec.Snapshot()
		want := t.Ref(args)
		depth := s.rec.GetMaxDepth()
		if calls == 2 && depth == 2 && (ran == 1 || t.NoRan) && x.env.Known["S1"] && val.SameList(seen, args, true) && val.SameList(ores, want, false) {
			// open known finding S1: the relocated stack check failed (low headroom or a pending
			// preemption request) and the slow path re-entered the mock once before succeeding
			x.env.UseKnown("S1")
			calls, depth = 1, 1
		}
		if calls != 1 || depth > 1 {
			x.fail("origin/reentry", "mocked %s: callback ran %d times (depth %d) for one call through the origin placeholder", t.Name, calls, depth)
		}
		if !val.SameList(seen, args, true) {
			x.fail("behaviour/cb-args", "mocked %s: origin callback saw %s, caller passed %s", t.Name, val.ShowList(seen), val.ShowList(args))
		}
		if ran != 1 && !t.NoRan {
			x.fail("origin/not-run", "mocked %s: original body ran %d times through the origin placeholder", t.Name, ran)
		}
		if !val.SameList(ores, want, false) {
			x.fail("origin/result", "origin placeholder of %s returned %s, un-mocked function returns %s", t.Name, val.ShowList(ores), val.ShowList(want))
		}
		if !noRes && !val.SameList(got, want, false) {
			x.fail("behaviour/cb-results", "mocked %s: caller got %s, origin callback returned %s", t.Name, val.ShowList(got), val.ShowList(want))
		}
	case kStub:
		margs := args
		if s.skipRecv {
			margs = args[1:]
		}
		if t.Typ.IsVariadic() {
			margs = expandVariadic(margs)
		}
		out := s.stub.Call(margs)
		if ran != 0 && !t.NoRan {
			x.fail("behaviour/orig-ran", "stubbed %s: the original body ran (%d times)", t.Name, ran)
		}
		if out.Panic {
			if pv == nil {
				x.fail("stub/no-panic", "stubbed %s(%s): no clause matches and there is no default, want a 'no suitable condition' panic, got %s", t.Name, val.ShowList(args), val.ShowList(got))
			}
			if !isNoCondition(pv) {
				x.fail("stub/wrong-panic", "stubbed %s: want a 'no suitable condition' panic, got panic %v", t.Name, pv)
			}
			return
		}
		if pv != nil {
			x.fail("stub/panic", "stubbed %s(%s) panicked: %v (model selects clause %d)", t.Name, val.ShowList(args), pv, out.Clause)
		}
		if !stubResultsSame(t.Typ, got, out.Results) {
			x.fail("stub/result", "stubbed %s(%s) = %s, want %s (clause %d, position %d)", t.Name, val.ShowList(args), val.ShowList(got), val.ShowList(out.Results), out.Clause, out.Pos)
		}
	}
}

func expandVariadic(args []interface{}) []interface{} {
	if len(args) == 0 {
		return args
	}
	out := append([]interface{}(nil), args[:len(args)-1]...)
	rv := reflect.ValueOf(args[len(args)-1])
	for i := 0; i < rv.Len(); i++ {
		out = append(out, rv.Index(i).Interface())
	}
	return out
}

// stubResultsSame compares delivered stub results with the configured values: a nil given for a
// nilable result is delivered as the typed zero value.
func stubResultsSame(ft reflect.Type, got, want []interface{}) bool {
	if len(got) != len(want) {
		return false
	}
	for i := range got {
		w := want[i]
		if w == nil {
			w = reflect.Zero(ft.Out(i)).Interface()
		}
		if !val.Same(got[i], w, true) {
			return false
		}
	}
	return true
}

// runDeep runs f on a fresh goroutine below depth filler frames; panics are forwarded.
func runDeep(depth, fine int, f func()) {
	done := make(chan struct{})
	var pv interface{}
	go func() {
		defer func() {
			pv = recover()
			close(done)
		}()
		filler(depth, fine, f)
	}()
	<-done
	if pv != nil {
		panic(pv)
	}
}

//go:noinline
func filler(d, fine int, f func()) int {
	var pad [24]byte
	pad[d%24] = 1
	if d <= 0 {
		switch fine & 3 {
		case 0:
			return last0(f)
		case 1:
			return last1(f)
		case 2:
			return last2(f)
		default:
			return last3(f)
		}
	}
	return filler(d-1, fine, f) + int(pad[d%24])
}

//go:noinline
func last0(f func()) int { f(); return 0 }

//go:noinline
func last1(f func()) int {
	var pad [16]byte
	pad[3] = 1
	f()
	return int(pad[3])
}

//go:noinline
func last2(f func()) int {
	var pad [32]byte
	pad[5] = 1
	f()
	return int(pad[5])
}

//go:noinline
func last3(f func()) int {
	var pad [48]byte
	pad[7] = 1
	f()
	return int(pad[7])
}

//go:noinline
func reserveStack() int {
	var pad [48 << 10]byte
	pad[len(pad)-1] = 1
	return int(pad[0]) + int(pad[len(pad)-1])
}

func (x *Exec) builder(b int) *mocker.Builder {
	for len(x.builders) <= b {
		x.builders = append(x.builders, nil)
	}
	if x.builders[b] == nil {
		if b%2 == 1 {
			x.builders[b] = mocker.New()
		} else {
			x.builders[b] = mocker.Create()
		}
	}
	return x.builders[b]
}

// causeChainOK walks the cause chain of a panic value that is an error.
func causeChainOK(pv interface{}) string {
	err, ok := pv.(error)
	if !ok {
		return ""
	}
	last := err
	for i := 0; ; i++ {
		if i > 32 {
			return "cause chain does not terminate"
		}
		c := erro.Cause(last)
		if c == nil {
			break
		}
		last = c
	}
	if _, ok := err.(erro.Traceable); ok {
		// a traceable error must lead to a typed cause from the erro package (or be one itself)
		t := reflect.TypeOf(last)
		if t.Kind() == reflect.Ptr {
			t = t.Elem()
		}
		if !strings.HasSuffix(t.PkgPath(), "/erro") {
			return fmt.Sprintf("cause chain ends in untyped %T", last)
		}
		if t.Name() == "TraceableError" {
			// the generic carrier (message + stack) is not a typed cause: the chain must end in one of the
			// specific error types (IllegalParam, IllegalParamType, ArgsNotMatch, ...)
			return fmt.Sprintf("cause chain ends in the generic %T without reaching a typed cause", last)
		}
	}
	return ""
}

func (x *Exec) step(op world.Op) {
	switch op.K {
	case "apply", "ret", "retseq", "when", "bad", "pkglookup":
		if s := x.st[op.T]; s != nil && s.kind == kUnknown {
			return // the mocker's internal state after a faulted operation is unspecified: only Cancel / Reset follow
		}
	}
	if x.opFailed {
		// recovery regime: an operation of this history failed under an injected fault. What a mocker
		// remembers after a failure (a half-cancelled stub, which mockers a partial Reset reached - that
		// depends on Go's map order) is outside every statement, so nothing is INSTALLED any more; the
		// rest of the history checks that Cancel / Reset still restore everything and that calls behave
		// as the model says.
		switch op.K {
		case "apply", "ret", "retseq", "when", "bad", "pkglookup":
			return
		}
	}
	switch op.K {
	case "apply":
		t := Targets[op.T]
		s := x.state(op.T)
		rec := &thunk.Rec{}
		var m mocker.ExportedMocker
		if kept := x.handles[[2]int{op.B, op.T}]; op.F&2 != 0 && kept != nil {
			// the caller kept the handle of an earlier apply, cancelled it, and now re-applies through it
			m = kept
			x.hmode[[2]int{op.B, op.T}] = true
			x.env.Probe("reapply_through_kept_handle")
		} else {
			m = t.Lookup(x.builder(op.B), op.N)
			x.handles[[2]int{op.B, op.T}] = m
		}
		var cb interface{}
		if op.F&1 == 1 {
			rec.IsOrigin = true
			x.phUsed[op.T] = true
			phEver[op.T] = true
			if t.MkOrigLocal != nil && op.V&1 == 1 {
				// the placeholder VARIABLE is a fresh one that only this callback references (the README's
				// local `var origin = func...`): it dies with the callback, its code body is the zoo's
				var ph interface{}
				cb, ph = t.MkOrigLocal(rec)
				m = m.Origin(ph)
				x.env.Probe("origin_placeholder_variable_local")
			} else {
				cb = t.MkOrig(rec)
				m = m.Origin(t.Ph)
			}
		} else {
			rec.Results = val.GenResults(rng.Derive(op.V, 21), t.Typ)
			cb = t.MkCb(rec)
		}
		x.keep = append(x.keep, cb)
		if x.guarded(func() { m.Apply(cb) }) {
			x.unknown(op.T, op.B)
			x.checkImage()
			return
		}
		s.owner, s.rec, s.stub, s.results = op.B, rec, nil, rec.Results
		if op.F&1 == 1 {
			s.kind = kCbOrigin
		} else {
			s.kind = kCb
		}
		x.env.T("apply %s origin=%d handle=%d", shortName(t.Name), op.F&1, op.F>>1)
	case "ret":
		t := Targets[op.T]
		s := x.state(op.T)
		res := val.GenResults(rng.Derive(op.V, 22), t.Typ)
		if x.guarded(func() { t.Lookup(x.builder(op.B), op.N).Return(res...) }) {
			x.unknown(op.T, op.B)
			x.checkImage()
			return
		}
		s.owner, s.kind, s.rec = op.B, kStub, nil
		s.skipRecv = t.SkipRecv != nil && t.SkipRecv(op.N)
		s.stub = &model.Stub{HasResults: t.Typ.NumOut() > 0, Eq: func(p, a interface{}) bool { return val.Same(p, a, false) }}
		s.stub.Default = [][]interface{}{res}
		x.env.T("ret %s %s", shortName(t.Name), val.ShowList(res))
	case "retseq":
		// Returns(v1..vn): a default sequence; every call advances it until it sticks at vn
		t := Targets[op.T]
		s := x.state(op.T)
		n := 2 + int(op.W%3)
		r := rng.Derive(op.V, 25)
		var seq [][]interface{}
		var vals []interface{}
		for i := 0; i < n; i++ {
			res := val.GenResults(r, t.Typ)
			seq = append(seq, res)
			if len(res) == 1 {
				vals = append(vals, res[0])
			} else {
				vals = append(vals, res)
			}
		}
		if x.guarded(func() { t.Lookup(x.builder(op.B), op.N).Returns(vals...) }) {
			x.unknown(op.T, op.B)
			x.checkImage()
			return
		}
		s.owner, s.kind, s.rec = op.B, kStub, nil
		s.skipRecv = t.SkipRecv != nil && t.SkipRecv(op.N)
		s.stub = &model.Stub{HasResults: true, Eq: func(p, a interface{}) bool { return val.Same(p, a, false) }}
		s.stub.Default = seq
		x.env.T("retseq %s n=%d", shortName(t.Name), n)
		x.env.Probe("result_sequence_configured")
	case "when":
		t := Targets[op.T]
		s := x.state(op.T)
		res := val.GenResults(rng.Derive(op.V, 23), t.Typ)
		cargs := val.GenArgs(rng.Derive(op.W, 24), t.Typ)
		skip := t.SkipRecv != nil && t.SkipRecv(op.N)
		if skip {
			cargs = cargs[1:]
		}
		if x.guarded(func() { t.Lookup(x.builder(op.B), op.N).When(cargs...).Return(res...) }) {
			x.unknown(op.T, op.B)
			x.checkImage()
			return
		}
		if s.kind != kStub || s.owner != op.B {
			s.stub = &model.Stub{HasResults: t.Typ.NumOut() > 0, Eq: func(p, a interface{}) bool { return val.Same(p, a, false) }}
		}
		s.skipRecv = skip
		s.owner, s.kind, s.rec = op.B, kStub, nil
		alt := make([]model.ArgMatcher, len(cargs))
		for i, a := range cargs {
			alt[i] = model.ArgMatcher{Values: []interface{}{a}}
		}
		s.stub.Clauses = append(s.stub.Clauses, &model.Clause{Alts: [][]model.ArgMatcher{alt}, Results: [][]interface{}{res}})
		x.env.T("when %s %s -> %s", shortName(t.Name), val.ShowList(cargs), val.ShowList(res))
	case "cancel":
		t := Targets[op.T]
		s := x.state(op.T)
		key := [2]int{op.B, op.T}
		kept := x.handles[key]
		viaKept := kept != nil && ((op.F&2 != 0 && !x.opFailed) || x.hmode[key])
		if x.guarded(func() {
			if viaKept {
				kept.Cancel()
			} else {
				t.Lookup(x.builder(op.B), op.N).Cancel()
			}
		}) {
			x.unknown(op.T, op.B)
			x.checkImage()
			return
		}
		if viaKept {
			delete(x.hmode, key)
		}
		if s.owner == op.B {
			*s = tstate{kind: kOrig, owner: -1}
		}
		x.env.T("cancel %s", shortName(t.Name))
	case "reset":
		faulted := x.guarded(func() { x.builder(op.B).Reset() })
		if faulted && op.N == 1 {
			// retiring a builder: the caller repeats Reset until it succeeds (the fault budget is
			// finite), otherwise the "never used again" builder would still own live patches
			for try := 0; faulted && try < 8; try++ {
				faulted = x.guarded(func() { x.builder(op.B).Reset() })
			}
		}
		if faulted {
			// Reset walks its mockers; a fault in the middle leaves every target of this builder in doubt
			for ti, s := range x.st {
				if s.owner == op.B {
					x.unknown(ti, op.B)
				}
			}
			x.checkImage()
			return
		}
		for _, s := range x.st {
			if s.owner == op.B {
				*s = tstate{kind: kOrig, owner: -1}
			}
		}
		for k := range x.handles {
			if k[0] == op.B {
				delete(x.handles, k)
				delete(x.hmode, k)
			}
		}
		if op.N == 1 { // retire: this builder object is never used again
			x.builders[op.B] = nil
		}
		x.env.T("reset b%d", op.B)
	case "call":
		x.callTarget(op.T, op.F, op.W, op.N == 1)
		return // callTarget is its own check; image unchanged by calls is checked at the next step
	case "checkall":
		r := rng.Derive(op.W, 31)
		for _, ti := range x.sortedTargets() {
			x.callTarget(ti, thunk.FormDirect, r.U64(), false)
		}
		// two untouched neighbours
		for i := 0; i < 2; i++ {
			ti := r.Intn(len(Targets))
			x.callTarget(ti, thunk.FormDirect, r.U64(), false)
		}
	case "pkglookup":
		// Pkg(other) followed by a lookup that consumes the override (fresh or cached) and configures
		// nothing: the NEXT lookup must be back in the caller's package
		t := Targets[op.T]
		t.Lookup(x.builder(op.B).Pkg(fn2.PkgPath), op.N)
		x.env.Probe("pkg_override_consumed")
		x.env.T("pkglookup %s", shortName(t.Name))
		return
	case "gc":
		simenv.GC()
		x.env.Probe("explicit_gc")
	case "grow":
		growStack(op.N)
	case "dropref":
		if op.B < len(x.builders) {
			x.builders[op.B] = nil
		}
		x.keep = nil
		for k := range x.handles {
			if k[0] == op.B {
				delete(x.handles, k)
				delete(x.hmode, k)
			}
		}
		for _, s := range x.st {
			if s.owner == op.B {
				s.owner = -2
			}
		}
		x.env.Probe("builder_dropped")
	case "log":
		switch op.N {
		case 0:
			mocker.CloseTrace()
			mocker.CloseDebug()
		case 1:
			mocker.OpenDebug()
		case 2:
			mocker.OpenTrace()
		}
	case "bad":
		x.bad(op)
	default:
		panic("hist: unknown op " + op.K)
	}
	x.checkImage()
	if x.Faults && x.Foreign == nil {
		switch op.K {
		case "apply":
			// Apply always writes the jump; it REPORTED success: whatever earlier failed writes left behind,
			// the page of this target's entry is read+execute again (every successful text write ends with
			// that). Operations that may write nothing (Cancel of an un-mocked target, a clause added to an
			// existing stub) are not covered by this rule.
			if s := x.st[op.T]; s != nil && s.kind != kUnknown {
				if pm := simenv.PermsAt(Targets[op.T].Entry); len(pm) >= 3 && (pm[1] == 'w' || pm[2] != 'x') {
					x.fail("pages/writable-after-success", "%s on %s returned without error but the page of its entry is mapped %s", op.K, Targets[op.T].Name, pm)
				}
			}
		}
	}
	// behaviour of the touched target right after the step
	switch op.K {
	case "apply", "ret", "retseq", "when", "cancel", "bad":
		x.callTarget(op.T, int(op.W%3), op.W^0x5bd1e995, op.K == "when")
		// no other method of the same type may be affected (sequential worlds only: in the concurrent
		// world a sibling may belong to another task and be in flux)
		for i, sb := range Targets[op.T].Siblings {
			if x.Foreign != nil {
				break
			}
			x.callTarget(sb, thunk.FormDirect, op.W+uint64(i)*7919, false)
		}
	}
}

//go:noinline
func growStack(depth int) int {
	var pad [1024]byte
	pad[depth&1023] = byte(depth)
	if depth <= 0 {
		return int(pad[0])
	}
	return growStack(depth-1) + int(pad[depth&1023])
}

// bad performs one ill-formed configuration call and checks that it is rejected and changes
// nothing.
func (x *Exec) bad(op world.Op) {
	t := Targets[op.T]
	b := x.builder(op.B)
	desc := ""
	var f func()
	r := rng.Derive(op.V, 41)
	switch op.N {
	case 0:
		desc = "Func(non-function)"
		vals := []interface{}{123, "str", &fn.S1{}, 3.5}
		v := vals[r.Intn(len(vals))]
		f = func() { b.Func(v).Apply(func() {}) }
	case 1:
		desc = "Apply(callback with different arity)"
		var other *Target
		for i := 0; i < len(Targets); i++ {
			o := Targets[(op.T+1+i+r.Intn(7))%len(Targets)]
			if o.Kind == "func" && (o.Typ.NumIn() != t.Typ.NumIn() || o.Typ.NumOut() != t.Typ.NumOut()) {
				other = o
				break
			}
		}
		cb := other.MkCb(&thunk.Rec{})
		f = func() { t.Lookup(b, x.how(op.T)).Apply(cb) }
	case 2:
		desc = "Apply(callback with a different slot size)"
		cb := wrongSizeCallback(t.Typ, r)
		if cb == nil {
			return
		}
		f = func() { t.Lookup(b, x.how(op.T)).Apply(cb) }
	case 3:
		desc = "Return(too few values)"
		res := val.GenResults(r, t.Typ)
		if len(res) == 0 {
			return
		}
		res = res[:len(res)-1]
		if len(res) == 0 {
			// Return() with no values is "nil returns" = allowed shape for a later Returns; use When path instead
			return
		}
		f = func() { t.Lookup(b, x.how(op.T)).Return(res...) }
	case 4:
		desc = "Return(too many values)"
		res := append(val.GenResults(r, t.Typ), 1)
		f = func() { t.Lookup(b, x.how(op.T)).Return(res...) }
	case 5:
		desc = "When(too few arguments)"
		if t.Typ.IsVariadic() {
			// variadic with at least two fixed parameters: fewer values than fixed parameters, on a fresh
			// mocker (checked by CreateWhen) as well as chained onto an existing stub (checked when the
			// condition's expressions are built)
			if t.IsMethod || t.Typ.NumIn() < 3 {
				return
			}
			desc = "When(fewer values than the fixed parameters of a variadic target)"
			args := val.GenArgs(r, t.Typ)[:t.Typ.NumIn()-2]
			f = func() { t.Lookup(b, x.how(op.T)).When(args...) }
			break
		}
		args := val.GenArgs(r, t.Typ)
		if t.SkipRecv != nil && t.SkipRecv(x.how(op.T)) {
			args = args[1:]
		}
		if len(args) < 2 {
			return
		}
		args = args[:len(args)-1]
		f = func() { t.Lookup(b, x.how(op.T)).When(args...) }
	case 6:
		desc = "Return(value of a different size)"
		res := val.GenResults(r, t.Typ)
		pos := -1
		for i := 0; i < len(res); i++ {
			j := (i + r.Intn(len(res))) % len(res)
			if t.Typ.Out(j).Kind() != reflect.Interface {
				pos = j
				break
			}
		}
		if pos < 0 {
			return
		}
		if t.Typ.Out(pos).Size() == 1 {
			res[pos] = [5]int64{}
		} else {
			res[pos] = int8(1)
		}
		f = func() { t.Lookup(b, x.how(op.T)).Return(res...) }
	case 11:
		desc = "Returns(sequence containing a value of a different size)"
		if t.Typ.NumOut() == 0 {
			return
		}
		n := 1 + r.Intn(3)
		badAt := r.Intn(n)
		var seq []interface{}
		for i := 0; i < n; i++ {
			res := val.GenResults(r, t.Typ)
			if i == badAt {
				pos := -1
				for j := range res {
					if t.Typ.Out(j).Kind() != reflect.Interface {
						pos = j
					}
				}
				if pos < 0 {
					return
				}
				if t.Typ.Out(pos).Size() == 1 {
					res[pos] = [5]int64{}
				} else {
					res[pos] = int8(1)
				}
			}
			if len(res) == 1 {
				seq = append(seq, res[0])
			} else {
				seq = append(seq, res)
			}
		}
		f = func() { t.Lookup(b, x.how(op.T)).Returns(seq...) }
	case 14:
		desc = "Interface(&v).Method(unknown name)"
		it := ifc.Ifaces[int(op.V%uint64(len(ifc.Ifaces)))]
		vi := int(op.V>>8) % len(it.Vars)
		before := *(*[2]uintptr)(unsafe.Pointer(reflect.ValueOf(it.Vars[vi]).Pointer()))
		if x.ifaceBuilder == nil {
			x.ifaceBuilder = mocker.Create()
		}
		ib := x.ifaceBuilder
		cb := it.Methods[0].Mk(&ifc.Rec{})
		// the same bogus name every time: the second attempt meets whatever the first one cached
		f = func() { ib.Interface(it.Vars[vi]).Method("Gamma").Apply(cb) }
		defer func() {
			after := *(*[2]uintptr)(unsafe.Pointer(reflect.ValueOf(it.Vars[vi]).Pointer()))
			if after != before {
				x.fail("reject/iface-var-changed", "%s on %s was rejected but the variable changed: %x -> %x", desc, it.Name, before, after)
			}
		}()
	case 12, 13:
		// interface mocks: a callback that does not fit (the one place with a real cause chain)
		it := ifc.Ifaces[r.Intn(len(ifc.Ifaces))]
		vi := r.Intn(len(it.Vars))
		m := it.Methods[r.Intn(len(it.Methods))]
		before := *(*[2]uintptr)(unsafe.Pointer(reflect.ValueOf(it.Vars[vi]).Pointer()))
		var cb interface{}
		if op.N == 12 {
			desc = "Interface(&v).Method(m).Apply(callback whose first parameter is not *IContext)"
			cb = func(a int) int { return a }
		} else {
			desc = "Interface(&v).Method(m).Apply(callback with too few parameters)"
			if m.Typ.NumIn() < 2 {
				return
			}
			// drop the last parameter of the method's replacement type
			ins := make([]reflect.Type, 0, m.Typ.NumIn()-1)
			for i := 0; i < m.Typ.NumIn()-1; i++ {
				ins = append(ins, m.Typ.In(i))
			}
			outs := make([]reflect.Type, m.Typ.NumOut())
			for i := range outs {
				outs[i] = m.Typ.Out(i)
			}
			cb = reflect.MakeFunc(reflect.FuncOf(ins, outs, false), func([]reflect.Value) []reflect.Value {
				res := make([]reflect.Value, len(outs))
				for i := range res {
					res[i] = reflect.Zero(outs[i])
				}
				return res
			}).Interface()
		}
		// one builder for all rejected interface configurations of this history: a rejected attempt
		// must not leave anything behind that makes the next identical attempt succeed
		if x.ifaceBuilder == nil {
			x.ifaceBuilder = mocker.Create()
		}
		ib := x.ifaceBuilder
		f = func() { ib.Interface(it.Vars[vi]).Method(m.Name).Apply(cb) }
		defer func() {
			after := *(*[2]uintptr)(unsafe.Pointer(reflect.ValueOf(it.Vars[vi]).Pointer()))
			if after != before {
				x.fail("reject/iface-var-changed", "%s on %s.%s was rejected but the variable changed: %x -> %x", desc, it.Name, m.Name, before, after)
			}
		}()
	case 7:
		desc = "ExportFunc(unknown symbol).Apply"
		cb := t.MkCb(&thunk.Rec{})
		f = func() { b.ExportFunc("noSuchFunction_" + fmt.Sprint(r.Intn(100))).Apply(cb) }
	case 8:
		desc = "Struct(x).Method(unknown)"
		f = func() { b.Struct(&fn.S1{}).Method("NoSuchMethod") }
	case 9:
		desc = "Interface(non-pointer / pointer to non-interface)"
		if r.Intn(2) == 0 {
			f = func() { b.Interface(123).Method("Error") }
		} else {
			n := 5
			f = func() { b.Interface(&n).Method("Error") }
		}
	case 10:
		desc = "Pkg(unknown).ExportFunc(name).Apply"
		cb := t.MkCb(&thunk.Rec{})
		f = func() { b.Pkg("no/such/pkg").ExportFunc("F000").Apply(cb) }
	default:
		return
	}
	pv := catchCall(f)
	x.env.Check()
	x.env.Probe("rejected_op")
	x.env.T("bad %d %s -> rejected=%v", op.N, shortName(t.Name), pv != nil)
	if pv == nil {
		x.fail("reject/accepted", "%s on %s was accepted (no panic, no error)", desc, t.Name)
	}
	if msg := causeChainOK(pv); msg != "" {
		x.fail("reject/cause", "%s on %s: %s (%v)", desc, t.Name, msg, pv)
	}
	// "nothing changed" is asserted by the caller: image oracle with the unchanged model state
	// and a behaviour call on the target.
}

// wrongSizeCallback builds a func value whose type equals ft except for one parameter or result
// slot of a different size.
func wrongSizeCallback(ft reflect.Type, r *rng.R) interface{} {
	n := ft.NumIn() + ft.NumOut()
	if n == 0 {
		return nil
	}
	pos := r.Intn(n)
	ins := make([]reflect.Type, ft.NumIn())
	outs := make([]reflect.Type, ft.NumOut())
	for i := range ins {
		ins[i] = ft.In(i)
	}
	for i := range outs {
		outs[i] = ft.Out(i)
	}
	pick := func(t reflect.Type) reflect.Type {
		if t.Size() == 8 {
			return reflect.TypeOf([2]int64{})
		}
		return reflect.TypeOf(int64(0))
	}
	variadic := ft.IsVariadic()
	if pos < len(ins) {
		if variadic && pos == len(ins)-1 {
			variadic = false
		}
		ins[pos] = pick(ins[pos])
	} else {
		outs[pos-len(ins)] = pick(outs[pos-len(ins)])
	}
	nt := reflect.FuncOf(ins, outs, variadic)
	return reflect.MakeFunc(nt, func(a []reflect.Value) []reflect.Value {
		res := make([]reflect.Value, len(outs))
		for i := range res {
			res[i] = reflect.Zero(outs[i])
		}
		return res
	}).Interface()
}

// Step executes one operation (exported for the concurrent world).
func (x *Exec) Step(i int, op world.Op) {
	x.opi = i
	x.step(op)
}

// CallTarget calls a target and checks the outcome against this interpreter's model.
func (x *Exec) CallTarget(ti, form int, seed uint64) { x.callTarget(ti, form, seed, false) }

// CheckImage evaluates the image and page oracles.
func (x *Exec) CheckImage() { x.checkImage() }

// Final resets every builder of this interpreter and checks original behaviour.
func (x *Exec) Final() {
	x.opi = len(x.Ops)
	x.final()
}

// Regions returns the image regions this interpreter currently allows to differ.
func (x *Exec) Regions() []simenv.Region { return x.ownRegions() }

// Exec runs the plan.
func (W) Exec(p *world.Plan, env *world.Env) {
	if !WellFormed(p) {
		env.Res.Verdict = "invalid"
		env.Res.Msg = "history is not well-formed (see DESIGN.md Appendix F)"
		return
	}
	x := NewExec(env, p, p.Tasks[0].Ops)
	x.Faults = p.Knobs["faults"] == 1
	task := func() {
		for i, op := range p.Tasks[0].Ops {
			x.opi = i
			simcore.Yield(simcore.SiteOp, uintptr(i))
			x.step(op)
			env.Op()
		}
		x.opi = len(p.Tasks[0].Ops)
		x.final()
	}
	res := simcore.Run(p.SchedConfig(), []func(){task})
	env.Res.Stats, env.Res.Fired = res.Stats, res.Fired
	if pv := res.Panics[0]; pv != nil {
		if _, ok := pv.(world.Failure); !ok && !env.Failed() {
			env.Res.At = x.at()
			env.FailNoUnwind("crash/panic", "unexpected panic at %s: %v", x.at(), pv)
		}
	}
	env.Res.Nontriv = res.Stats.GC+res.Stats.Grow > 0 || hasKind(p, "gc", "grow", "dropref", "bad")
}

func hasKind(p *world.Plan, ks ...string) bool {
	for _, op := range p.Tasks[0].Ops {
		for _, k := range ks {
			if op.K == k {
				return true
			}
		}
	}
	return false
}

// final resets everything and requires the pristine image and original behaviour.
func (x *Exec) final() {
	// orphans: hand over to a cleanup builder, then reset it
	var cleanup *mocker.Builder
	for _, ti := range x.sortedTargets() {
		s := x.st[ti]
		if s.owner == -2 {
			if cleanup == nil {
				cleanup = mocker.Create()
			}
			rec := &thunk.Rec{}
			cb := Targets[ti].MkCb(rec)
			x.keep = append(x.keep, cb)
			for try := 0; try < 8; try++ {
				if !x.guarded(func() { Targets[ti].Lookup(cleanup, 0).Apply(cb) }) {
					break
				}
			}
		}
	}
	resetAll := func(b *mocker.Builder) {
		// under injected faults a Reset may fail part-way; the fault budget is finite, so retrying
		// terminates, and after a clean Reset everything the builder mocked must be restored
		for try := 0; try < 8; try++ {
			if !x.guarded(func() { b.Reset() }) {
				return
			}
		}
		x.fail("fault/reset-never-succeeds", "Builder.Reset kept failing although the fault budget is exhausted")
	}
	if cleanup != nil {
		resetAll(cleanup)
	}
	for _, b := range x.builders {
		if b != nil {
			resetAll(b)
		}
	}
	if x.ifaceBuilder != nil {
		if pv := catchCall(func() { x.ifaceBuilder.Reset() }); pv != nil {
			x.fail("reject/reset-panics", "Builder.Reset panicked after rejected interface configurations on that builder: %v", pv)
		}
		ifc.ResetVars()
	}
	for _, s := range x.st {
		*s = tstate{kind: kOrig, owner: -1}
	}
	mocker.CloseTrace()
	mocker.CloseDebug()
	if x.Faults && x.Foreign == nil {
		// sequential fault configuration: a failed re-protect may have left a page RWX
		simenv.RestoreRX(simcore.WritablePages())
		simcore.ResetPageTable()
	}
	x.checkImage()
	r := rng.Derive(x.p.Seed, 99)
	for _, ti := range x.sortedTargets() {
		x.callTarget(ti, thunk.FormDirect, r.U64(), false)
	}
	x.env.T("final")
}
