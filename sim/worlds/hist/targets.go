// Package hist is world W-HIST: histories of apply / re-apply / stub / cancel / reset / call
// operations over the function and method zoo, with GC, stack-growth and builder-dropped events,
// checked after every step against a last-writer-wins model, the text-image oracle and the
// page-protection oracle.
package hist

import (
	"reflect"

	mocker "github.com/tencent/goom"
	"github.com/tencent/goom/verifsim/simenv"
	"github.com/tencent/goom/verifsim/zoo/fn"
	"github.com/tencent/goom/verifsim/zoo/fn2"
	"github.com/tencent/goom/verifsim/zoo/meth"
	"github.com/tencent/goom/verifsim/zoo/thunk"
)

// Target is one mockable function or method.
type Target struct {
	Idx    int
	Name   string
	Typ    reflect.Type // type as called (receiver first for methods)
	Entry  uintptr      // entry address that receives the jump
	Call   func(form int, a []interface{}) []interface{}
	MkCb   func(rec *thunk.Rec) interface{}
	MkOrig func(rec *thunk.Rec) interface{}
	// MkOrigLocal: origin-calling callback bound to a fresh placeholder variable (nil where not generated)
	MkOrigLocal func(rec *thunk.Rec) (interface{}, interface{})
	Ph          interface{}
	PhEntry     uintptr
	// Lookup returns the mocker for this target through builder b; how selects among the
	// equivalent lookup paths the target supports.
	Lookup   func(b *mocker.Builder, how int) mocker.ExportedMocker
	NumHow   int
	Ref      func(args []interface{}) []interface{}
	RanCount func() int64
	IsMethod bool // stub matching skips the receiver
	Simple   bool // all parameters are plain comparable scalars/strings (used for When clauses)
	Kind     string
	// SkipRecv reports whether stubs configured through lookup path how ignore the receiver
	// (Struct().Method() does, the As(sig) and Func(method expression) paths do not).
	SkipRecv func(how int) bool
	Siblings []int // other methods of the same receiver type
	Mates    []int // generic instantiations sharing this target's shape body (behaviour unspecified while one is mocked)
	Generic  bool
	NoOrigin bool   // no origin placeholder available for this target
	NoRan    bool   // leaf function: no "original ran" counter, the result alone tells
	Known    string // id of the open known finding that makes this target unusable in ordinary plans
	// ByName reports whether lookup path how applies callbacks by symbol name, directly on the
	// UnExportedMocker (README: ExportFunc(n).Apply / ExportMethod(n).Apply / ExportStruct(s).Method(n).Apply):
	// goom has no type information on that path, so ill-typed callbacks cannot be rejected there.
	ByName func(how int) bool
	// ApplyOnly reports whether lookup path how supports callbacks only (a method VALUE handed to
	// Func: stubs would be built from the receiver-less type of the value).
	ApplyOnly func(how int) bool
	// ArgsUnchecked: a generic target WITH parameters (open finding S12: the hidden dictionary shifts
	// every declared parameter). It is part of ordinary plans with a reduced oracle - the replacement
	// runs exactly once instead of the original and results are delivered - so that everything
	// else about such targets (which entry gets the jump, restore, isolation) is still exercised.
	ArgsUnchecked bool
	// FixArgs normalises freshly generated call arguments in place (e.g. replaces a nil receiver the
	// target cannot be called with); targets that need it are used by world hist only.
	FixArgs func(a []interface{})
}

// ueAdapter drives an UnExportedMocker through the ExportedMocker interface the interpreter uses:
// Apply / Origin / Cancel go to the unexported mocker itself (the by-name path), stubs through As(sig).
type ueAdapter struct {
	u   mocker.UnExportedMocker
	sig interface{}
}

func (a *ueAdapter) Apply(cb interface{})                 { a.u.Apply(cb) }
func (a *ueAdapter) Cancel()                              { a.u.Cancel() }
func (a *ueAdapter) Canceled() bool                       { return a.u.Canceled() }
func (a *ueAdapter) String() string                       { return a.u.String() }
func (a *ueAdapter) When(s ...interface{}) *mocker.When   { return a.u.As(a.sig).When(s...) }
func (a *ueAdapter) Return(v ...interface{}) *mocker.When { return a.u.As(a.sig).Return(v...) }
func (a *ueAdapter) Returns(v ...interface{}) *mocker.When {
	return a.u.As(a.sig).Returns(v...)
}
func (a *ueAdapter) Origin(o interface{}) mocker.ExportedMocker {
	a.u = a.u.Origin(o)
	return a
}

// Targets is the corpus.
var Targets []*Target

func simpleKind(t reflect.Type) bool {
	switch t.Kind() {
	case reflect.Int, reflect.Int8, reflect.Int16, reflect.Int32, reflect.Int64,
		reflect.Uint, reflect.Uint8, reflect.Uint16, reflect.Uint32, reflect.Uint64, reflect.Uintptr,
		reflect.String, reflect.Bool:
		return true
	}
	return false
}

func init() {
	initFuncs()
	initMethods()
	initPkgFuncs()
	initGenericFuncs()
	initWrapperMethods()
}

// PW has a value-receiver method. Its pointer form (*PW).Val is a compiler-generated wrapper that
// interface dispatch on *PW and the method expression (*PW).Val enter; direct calls p.Val(x) go to
// PW.Val. Mocking the wrapper (Struct(&PW{}).Method("Val")) must hand the callback the caller's
// pointer and must leave PW.Val itself alone.
type PW struct{ A, B, C int }

// Val is the value-receiver method.
//
//go:noinline
func (p PW) Val(x int) int {
	fn.Ran(95)
	return p.A*3 + x
}

var pwExpr = (*PW).Val

type pwValer interface{ Val(int) int }

//go:noinline
func pwCall(v pwValer, x int) int { return v.Val(x) }

func initWrapperMethods() {
	const pkg = "github.com/tencent/goom/verifsim/worlds/hist"
	wr := &Target{Idx: len(Targets), Name: pkg + ".(*PW).Val", Typ: reflect.TypeOf(pwExpr), Entry: reflect.ValueOf(pwExpr).Pointer(),
		NumHow: 2, Kind: "method", IsMethod: true, NoOrigin: true}
	wr.MkCb = func(rec *thunk.Rec) interface{} {
		return func(p *PW, x int) int { return fn.As[int](rec.Enter([]interface{}{p, x})[0]) }
	}
	wr.Call = func(form int, a []interface{}) []interface{} {
		p, x := fn.As[*PW](a[0]), fn.As[int](a[1])
		if form%2 == 0 {
			return []interface{}{pwCall(p, x)} // interface dispatch on *PW
		}
		return []interface{}{pwExpr(p, x)} // method expression value
	}
	wr.Lookup = func(b *mocker.Builder, how int) mocker.ExportedMocker {
		if how == 1 {
			return b.Func(pwExpr)
		}
		return b.Struct(&PW{}).Method("Val")
	}
	wr.SkipRecv = func(how int) bool { return how == 0 }
	wr.FixArgs = func(a []interface{}) {
		if fn.As[*PW](a[0]) == nil {
			a[0] = &PW{A: 1} // a value method cannot be called through a nil pointer
		}
	}
	wr.Ref = func(a []interface{}) []interface{} {
		return []interface{}{fn.As[*PW](a[0]).A*3 + fn.As[int](a[1])}
	}
	wr.RanCount = func() int64 { return fn.RanCount(95) }
	Targets = append(Targets, wr)

	vt := &Target{Idx: len(Targets), Name: pkg + ".PW.Val", Typ: reflect.TypeOf(PW.Val), Entry: reflect.ValueOf(PW.Val).Pointer(),
		NumHow: 1, Kind: "method", IsMethod: true, NoOrigin: true}
	vt.MkCb = func(rec *thunk.Rec) interface{} {
		return func(p PW, x int) int { return fn.As[int](rec.Enter([]interface{}{p, x})[0]) }
	}
	vt.Call = func(form int, a []interface{}) []interface{} {
		return []interface{}{fn.As[PW](a[0]).Val(fn.As[int](a[1]))}
	}
	vt.Lookup = func(b *mocker.Builder, how int) mocker.ExportedMocker { return b.Struct(PW{}).Method("Val") }
	vt.SkipRecv = func(how int) bool { return true }
	vt.Ref = func(a []interface{}) []interface{} { return []interface{}{fn.As[PW](a[0]).A*3 + fn.As[int](a[1])} }
	vt.RanCount = func() int64 { return fn.RanCount(95) }
	Targets = append(Targets, vt)
	// the wrapper forwards to PW.Val: while PW.Val is mocked the wrapper's behaviour follows it
	wr.Mates = []int{vt.Idx}
	wr.Siblings = []int{vt.Idx}
	vt.Siblings = []int{wr.Idx}
}

// GPick is a parameterless generic FUNCTION (generic functions with parameters share open finding
// S12: the hidden dictionary is their first argument). Builder.Func keys it by name + pointer and
// patches the shared shape body behind the instantiation's wrapper.
//
//go:noinline
func GPick[T any]() T {
	var z T
	switch p := any(&z).(type) {
	case *string:
		fn.Ran(92)
		*p = "picked"
	case *int:
		fn.Ran(93)
		*p = 4242
	}
	return z
}

// GBig is a generic function whose instantiation wrapper has to copy a large stack-passed argument
// before it calls the shape body (a long wrapper); parameters of generic targets are S12 territory.
//
//go:noinline
func GBig[T any](a fn.S9, b T, c fn.S9) int {
	fn.Ran(94)
	return int(a.A + c.I)
}

func initGenericFuncs() {
	img, _ := simenv.Shared()
	const pkg = "github.com/tencent/goom/verifsim/worlds/hist"
	add := func(name, shape string, typ reflect.Type, fnv interface{}, call func() interface{}, mk func(rec *thunk.Rec) interface{}, ref interface{}, ran int) {
		t := &Target{Idx: len(Targets), Name: pkg + ".GPick[" + name + "]", Typ: typ, Entry: reflect.ValueOf(fnv).Pointer(),
			MkCb: mk, NumHow: 1, Kind: "func", Generic: true, NoOrigin: true}
		if img != nil {
			if e := img.Lookup(pkg + ".GPick[go.shape." + shape + "]"); e != 0 {
				t.Entry = e
			}
		}
		t.Call = func(form int, a []interface{}) []interface{} { return []interface{}{call()} }
		t.Lookup = func(b *mocker.Builder, how int) mocker.ExportedMocker { return b.Func(fnv) }
		t.Ref = func(a []interface{}) []interface{} { return []interface{}{ref} }
		t.RanCount = func() int64 { return fn.RanCount(ran) }
		Targets = append(Targets, t)
	}
	add("string", "string", reflect.TypeOf(GPick[string]), GPick[string], func() interface{} { return GPick[string]() },
		func(rec *thunk.Rec) interface{} {
			return func() string { return fn.As[string](rec.Enter([]interface{}{})[0]) }
		}, "picked", 92)
	add("int", "int", reflect.TypeOf(GPick[int]), GPick[int], func() interface{} { return GPick[int]() },
		func(rec *thunk.Rec) interface{} {
			return func() int { return fn.As[int](rec.Enter([]interface{}{})[0]) }
		}, 4242, 93)
	// GBig[int]: arguments are not compared (S12)
	big := &Target{Idx: len(Targets), Name: pkg + ".GBig[int]", Typ: reflect.TypeOf(GBig[int]), Entry: reflect.ValueOf(GBig[int]).Pointer(),
		NumHow: 1, Kind: "func", Generic: true, NoOrigin: true, ArgsUnchecked: true}
	if img != nil {
		if e := img.Lookup(pkg + ".GBig[go.shape.int]"); e != 0 {
			big.Entry = e
		}
	}
	big.MkCb = func(rec *thunk.Rec) interface{} {
		return func(a fn.S9, b int, c fn.S9) int { return fn.As[int](rec.Enter([]interface{}{a, b, c})[0]) }
	}
	big.Call = func(form int, a []interface{}) []interface{} {
		return []interface{}{GBig[int](fn.As[fn.S9](a[0]), fn.As[int](a[1]), fn.As[fn.S9](a[2]))}
	}
	big.Lookup = func(b *mocker.Builder, how int) mocker.ExportedMocker { return b.Func(GBig[int]) }
	big.Ref = func(a []interface{}) []interface{} {
		return []interface{}{int(fn.As[fn.S9](a[0]).A + fn.As[fn.S9](a[2]).I)}
	}
	big.RanCount = func() int64 { return fn.RanCount(94) }
	Targets = append(Targets, big)
}

// localFoo lives in the package that calls goom (this one): Builder.ExportFunc("localFoo") without
// a package override must resolve to it, and to fn2's function of the same name only when
// Pkg(fn2.PkgPath) was given for that very lookup.
//
//go:noinline
func localFoo(a int) int {
	fn.Ran(90)
	return a*3 + 1
}

// origin placeholders of the two localFoo targets
var phLocalFoo = func(a int) (o int) {
	fn.PhPad()
	fn.PhPad()
	fn.PhPad()
	fn.PhPad()
	fn.PhPad()
	fn.PhPad()
	fn.PhPad()
	fn.PhPad()
	fn.PhPad()
	fn.PhPad()
	fn.PhPad()
	fn.PhPad()
	return
}

var phOtherFoo = func(a int) (o int) {
	fn.PhPad()
	fn.PhPad()
	fn.PhPad()
	fn.PhPad()
	fn.PhPad()
	fn.PhPad()
	fn.PhPad()
	fn.PhPad()
	fn.PhPad()
	fn.PhPad()
	fn.PhPad()
	fn.PhPad()
	return
}

func mkOriginInt(ph *func(int) int) func(rec *thunk.Rec) interface{} {
	return func(rec *thunk.Rec) interface{} {
		return func(a int) int {
			rec.Enter([]interface{}{a})
			o := (*ph)(a)
			rec.OriginDone([]interface{}{o})
			return o
		}
	}
}

// PkgLocal / PkgOther are the corpus indices of the two localFoo targets.
var PkgLocal, PkgOther int

func initPkgFuncs() {
	sig := func(int) int { return 0 }
	mk := func(rec *thunk.Rec) interface{} {
		return func(a int) int { return fn.As[int](rec.Enter([]interface{}{a})[0]) }
	}
	typ := reflect.TypeOf(sig)
	local := &Target{Idx: len(Targets), Name: "github.com/tencent/goom/verifsim/worlds/hist.localFoo", Typ: typ, Entry: reflect.ValueOf(localFoo).Pointer(),
		MkCb: mk, NumHow: 2, Kind: "pkgfunc", MkOrig: mkOriginInt(&phLocalFoo), Ph: &phLocalFoo, PhEntry: reflect.ValueOf(&phLocalFoo).Elem().Pointer()}
	local.ByName = func(how int) bool { return how == 1 }
	local.Call = func(form int, a []interface{}) []interface{} { return []interface{}{localFoo(fn.As[int](a[0]))} }
	local.Lookup = func(b *mocker.Builder, how int) mocker.ExportedMocker {
		if how == 1 {
			return &ueAdapter{u: b.ExportFunc("localFoo"), sig: sig}
		}
		return b.ExportFunc("localFoo").As(sig)
	}
	local.Ref = func(a []interface{}) []interface{} { return []interface{}{fn.As[int](a[0])*3 + 1} }
	local.RanCount = func() int64 { return fn.RanCount(90) }
	PkgLocal = local.Idx
	Targets = append(Targets, local)
	other := &Target{Idx: len(Targets), Name: fn2.PkgPath + ".localFoo", Typ: typ, MkCb: mk, NumHow: 2, Kind: "pkgfunc", MkOrig: mkOriginInt(&phOtherFoo), Ph: &phOtherFoo, PhEntry: reflect.ValueOf(&phOtherFoo).Elem().Pointer()}
	other.ByName = func(how int) bool { return how == 1 }
	if img, _ := simenv.Shared(); img != nil {
		other.Entry = img.Lookup(other.Name)
	}
	other.Call = func(form int, a []interface{}) []interface{} {
		return []interface{}{fn2.CallLocalFoo(fn.As[int](a[0]))}
	}
	other.Lookup = func(b *mocker.Builder, how int) mocker.ExportedMocker {
		if how == 1 {
			return &ueAdapter{u: b.Pkg(fn2.PkgPath).ExportFunc("localFoo"), sig: sig}
		}
		return b.Pkg(fn2.PkgPath).ExportFunc("localFoo").As(sig)
	}
	other.Ref = func(a []interface{}) []interface{} { return []interface{}{fn.As[int](a[0])*5 + 2} }
	other.RanCount = func() int64 { return fn.RanCount(91) }
	PkgOther = other.Idx
	Targets = append(Targets, other)
}

var shapeOf = map[string]string{"GT[string]": "GT[go.shape.string]", "GT[fn.MyStr]": "GT[go.shape.string]", "GT[int]": "GT[go.shape.int]"}

func initMethods() {
	img, _ := simenv.Shared()
	first := len(Targets)
	for _, m := range meth.Methods {
		m := m
		t := &Target{Idx: len(Targets), Name: m.SymName, Typ: m.Typ, Entry: m.Entry, Call: m.Call, MkCb: m.MkCb, MkOrig: m.MkOriginCb,
			Ph: m.Ph, PhEntry: m.PhEntry, NumHow: 1, Kind: "method", IsMethod: true, Generic: m.Generic}
		if m.Generic && m.Typ.NumIn() > 1 {
			// S12: the shape body takes a hidden dictionary argument after the receiver
			t.Known = "S12"
		}
		if m.Generic {
			// the jump lands on the shared shape body behind the instantiation's wrapper
			open, close := ".(*", ")."
			if m.RecvKind == "val" {
				open, close = ".", "." // value receiver: pkg.GT[...].Name
			}
			t.Name = meth.PkgPath + open + m.Recv + close + m.Name
			if img != nil {
				if e := img.Lookup(meth.PkgPath + open + shapeOf[m.Recv] + close + m.Name); e != 0 {
					t.Entry = e
				}
			}
		}
		switch m.Lookup {
		case "method":
			t.NumHow = 2
			if m.Generic {
				t.NumHow = 1
			} else if m.MV != nil {
				t.NumHow = 3
			}
			t.Lookup = func(b *mocker.Builder, how int) mocker.ExportedMocker {
				switch how {
				case 1:
					return b.Func(m.Expr)
				case 2:
					return b.Func(m.MV) // method value: resolved by cutting "-fm" off the wrapper's symbol name
				}
				return b.Struct(m.Inst).Method(m.Name)
			}
			t.SkipRecv = func(how int) bool { return how == 0 }
			t.ByName = func(how int) bool { return how == 2 }
			t.ApplyOnly = func(how int) bool { return how == 2 }
		case "export":
			t.NumHow = 2
			t.Lookup = func(b *mocker.Builder, how int) mocker.ExportedMocker {
				if how == 1 {
					return &ueAdapter{u: b.Struct(m.Inst).ExportMethod(m.Name), sig: m.Sig}
				}
				return b.Struct(m.Inst).ExportMethod(m.Name).As(m.Sig)
			}
			t.SkipRecv = func(int) bool { return false }
			t.ByName = func(how int) bool { return how == 1 }
		case "ustruct":
			name := m.Recv
			if m.RecvKind == "ptr" {
				name = "*" + name
			}
			t.NumHow = 2
			t.Lookup = func(b *mocker.Builder, how int) mocker.ExportedMocker {
				if how == 1 {
					return &ueAdapter{u: b.Pkg(meth.PkgPath).ExportStruct(name).Method(m.Name), sig: m.Sig}
				}
				return b.Pkg(meth.PkgPath).ExportStruct(name).Method(m.Name).As(m.Sig)
			}
			t.SkipRecv = func(int) bool { return false }
			t.ByName = func(how int) bool { return how == 1 }
		}
		t.Ref = func(args []interface{}) []interface{} { return fn.Compute(m.Global, m.Typ, args) }
		t.RanCount = func() int64 { return fn.RanCount(m.Global) }
		t.Simple = m.Lookup == "method" && m.Typ.NumIn() > 1
		for i := 1; i < m.Typ.NumIn(); i++ {
			if !simpleKind(m.Typ.In(i)) {
				t.Simple = false
			}
		}
		Targets = append(Targets, t)
	}
	for i, m := range meth.Methods {
		for j, o := range meth.Methods {
			if i == j {
				continue
			}
			if o.Recv == m.Recv {
				Targets[first+i].Siblings = append(Targets[first+i].Siblings, first+j)
			}
			if m.Generic && o.Generic && o.Name == m.Name && shapeOf[o.Recv] == shapeOf[m.Recv] {
				Targets[first+i].Mates = append(Targets[first+i].Mates, first+j)
			}
		}
	}
}

func initFuncs() {
	for _, f := range thunk.Funcs {
		f := f
		t := &Target{Idx: len(Targets), Name: f.Name, Typ: f.Typ, Entry: f.Entry, Call: f.Call, MkCb: f.MkCb, MkOrig: f.MkOriginCb, MkOrigLocal: f.MkOriginLocal,
			Ph: f.Ph, PhEntry: f.PhEntry, NumHow: 1, Kind: "func"}
		t.Lookup = func(b *mocker.Builder, how int) mocker.ExportedMocker { return b.Func(f.Fn) }
		t.Ref = func(args []interface{}) []interface{} { return fn.Compute(f.Idx, f.Typ, args) }
		t.RanCount = func() int64 { return fn.RanCount(f.Idx) }
		if f.Leaf > 0 {
			t.NoRan = true
			t.Kind = "func"
			t.Ref = func(args []interface{}) []interface{} { return fn.LeafRef(f.Leaf-1, args) }
			t.RanCount = func() int64 { return 0 }
		}
		t.Simple = f.Typ.NumIn() > 0 && !f.Typ.IsVariadic()
		for i := 0; i < f.Typ.NumIn(); i++ {
			if !simpleKind(f.Typ.In(i)) {
				t.Simple = false
			}
		}
		Targets = append(Targets, t)
	}
}
