// Package hist is world W-HIST: histories of apply / re-apply / stub / cancel / reset / call
// operations over the function and method zoo, with GC, stack-growth and builder-dropped events,
// checked after every step against a last-writer-wins model, the text-image oracle and the
// page-protection oracle.
package hist

import (
	"reflect"

	mocker "github.com/tencent/goom"
	"github.com/tencent/goom/verifsim/zoo/fn"
	"github.com/tencent/goom/verifsim/zoo/thunk"
)

// Target is one mockable function or method.
type Target struct {
	Idx     int
	Name    string
	Typ     reflect.Type // type as called (receiver first for methods)
	Entry   uintptr      // entry address that receives the jump
	Call    func(form int, a []interface{}) []interface{}
	MkCb    func(rec *thunk.Rec) interface{}
	MkOrig  func(rec *thunk.Rec) interface{}
	Ph      interface{}
	PhEntry uintptr
	// Lookup returns the mocker for this target through builder b; how selects among the
	// equivalent lookup paths the target supports.
	Lookup   func(b *mocker.Builder, how int) mocker.ExportedMocker
	NumHow   int
	Ref      func(args []interface{}) []interface{}
	RanCount func() int64
	IsMethod bool // stub matching skips the receiver
	Simple   bool // all parameters are plain comparable scalars/strings (used for When clauses)
	Kind     string
}

// Targets is the corpus.
var Targets []*Target

func simpleKind(t reflect.Type) bool {
	switch t.Kind() {
	case reflect.Int, reflect.Int8, reflect.Int16, reflect.Int32, reflect.Int64,
		reflect.Uint, reflect.Uint8, reflect.Uint16, reflect.Uint32, reflect.Uint64, reflect.Uintptr,
		reflect.String, reflect.Bool:
		return true
	}
	return false
}

func init() {
	for _, f := range thunk.Funcs {
		f := f
		t := &Target{Idx: len(Targets), Name: f.Name, Typ: f.Typ, Entry: f.Entry, Call: f.Call, MkCb: f.MkCb, MkOrig: f.MkOriginCb,
			Ph: f.Ph, PhEntry: f.PhEntry, NumHow: 1, Kind: "func"}
		t.Lookup = func(b *mocker.Builder, how int) mocker.ExportedMocker { return b.Func(f.Fn) }
		t.Ref = func(args []interface{}) []interface{} { return fn.Compute(f.Idx, f.Typ, args) }
		t.RanCount = func() int64 { return fn.RanCount(f.Idx) }
		t.Simple = f.Typ.NumIn() > 0 && !f.Typ.IsVariadic()
		for i := 0; i < f.Typ.NumIn(); i++ {
			if !simpleKind(f.Typ.In(i)) {
				t.Simple = false
			}
		}
		Targets = append(Targets, t)
	}
}
