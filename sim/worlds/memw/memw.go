// Package memw is world W-MEM (C14). Mode "arena": writer tasks call memory.WriteTo with seeded
// (offset, length 1..9000) into a multi-page assembly arena of callable cells while caller tasks,
// scheduled at mem.write.rwx / mem.write.copied, execute cells on the pages being written; a
// separate configuration injects mprotect errno. Mode "sweep": patch.Ptr + Apply + Unpatch on
// real compiler-emitted functions of linked-but-never-executed packages with a full image diff
// around every write.
package memw

import (
	"fmt"
	"sort"
	"strings"
	"syscall"
	"unsafe"

	"github.com/tencent/goom/internal/bytecode/memory"
	"github.com/tencent/goom/internal/patch"
	"github.com/tencent/goom/verifsim/rng"
	"github.com/tencent/goom/verifsim/simcore"
	"github.com/tencent/goom/verifsim/simenv"
	"github.com/tencent/goom/verifsim/world"
	"github.com/tencent/goom/verifsim/worlds/hist"
	"github.com/tencent/goom/verifsim/worlds/originw"
	"github.com/tencent/goom/verifsim/zoo/asm"
	"github.com/tencent/goom/verifsim/zoo/inert"
)

// W is the world.
type W struct{}

func init() {
	world.Register(W{})
	world.PropWorld["C14"] = "mem"
}

// Name of the world.
func (W) Name() string { return "mem" }

const arenaName = "github.com/tencent/goom/verifsim/zoo/asm.Arena.abi0"
const arenaBytes = asm.ArenaCells * asm.CellSize

var candidates []string

// keeps the arena linked (the wrapper returned here is not the arena itself; the body is found
// through its .abi0 symbol)
var arenaWrapper = asm.ArenaAddr()

var tinyWrapper = asm.TinyAddr()

// Candidates lists the sweep targets: inert library functions plus the zoo functions.
func Candidates() []string {
	if candidates != nil {
		return candidates
	}
	img, err := simenv.Shared()
	if err != nil {
		return nil
	}
	if len(inert.Refs) == 0 {
		return nil
	}
	for _, e := range img.Funcs() {
		n := img.Name(e)
		if strings.HasSuffix(n, ".abi0") || strings.Contains(n, "go:") {
			continue
		}
		ok := strings.HasPrefix(n, "github.com/tencent/goom/verifsim/zoo/fn.F") || strings.HasPrefix(n, "github.com/tencent/goom/verifsim/zoo/fn2.F")
		for _, p := range inert.Prefixes {
			if strings.HasPrefix(n, p) {
				ok = true
			}
		}
		if ok {
			candidates = append(candidates, n)
		}
	}
	sort.Strings(candidates)
	return candidates
}

// Gen builds a plan.
func (W) Gen(prop string, seed uint64, tier string) *world.Plan {
	r := rng.Derive(seed, 0x3e3)
	p := &world.Plan{Prop: prop, World: "mem", Seed: seed, Knobs: map[string]int{}}
	p.Sched.MaxSteps = 100000
	switch r.Pick(40, 15, 35, 10) {
	case 3: // trampoline writes: origin placeholders of exactly K bytes with a neighbour routine behind them
		p.Knobs["mode"] = 2
		var ops []world.Op
		for i, n := 0, 8+r.Intn(16); i < n; i++ {
			ops = append(ops, world.Op{K: "shape", N: r.Intn(len(asm.Shapes)), F: 2 + r.Intn(len(asm.TightSizes)), W: uint64(r.Intn(14))})
		}
		p.Tasks = append(p.Tasks, world.Task{Role: "trampolines", Ops: ops})
	case 0: // arena, concurrent writers and callers, no faults
		p.Knobs["mode"] = 0
		p.Sched.Permille = []int{50, 300, 1000}[r.Intn(3)]
		nW := 1 + r.Intn(2)
		nC := 1 + r.Intn(2)
		for w := 0; w < nW; w++ {
			p.Tasks = append(p.Tasks, world.Task{Role: "writer", Ops: genWrites(r, 3+r.Intn(10))})
		}
		for c := 0; c < nC; c++ {
			var ops []world.Op
			for i, n := 0, 6+r.Intn(20); i < n; i++ {
				ops = append(ops, world.Op{K: "mcall", W: r.U64()})
			}
			p.Tasks = append(p.Tasks, world.Task{Role: "caller", Ops: ops})
		}
	case 1: // arena, single writer, mprotect faults
		p.Knobs["mode"] = 0
		p.Knobs["faults"] = 1
		p.Sched.FaultPermille = map[string]int{"mprotect": []int{100, 300}[r.Intn(2)]}
		p.Sched.FaultKinds = map[string][]int{"mprotect": {simcore.FaultEACCES, simcore.FaultENOMEM}}
		p.Sched.MaxFaults = 6
		p.Tasks = append(p.Tasks, world.Task{Role: "writer", Ops: genWrites(r, 4+r.Intn(10))})
	case 2: // sweep
		p.Knobs["mode"] = 1
		c := Candidates()
		n := 20 + r.Intn(40)
		if tier == "thorough" {
			n = 100 + r.Intn(100)
		}
		var ops []world.Op
		start := int((seed * 97) % uint64(len(c)))
		for i := 0; i < n; i++ {
			if r.Chance(250) {
				// a routine with 7..32 bytes before its neighbour: refusal or a jump inside its own extent
				ops = append(ops, world.Op{K: "tiny", T: r.Intn(len(asm.TinyRoutines)), N: r.Intn(4)})
				continue
			}
			ops = append(ops, world.Op{K: "ptr", S: c[(start+i)%len(c)], N: r.Intn(4)})
		}
		p.Tasks = append(p.Tasks, world.Task{Role: "patcher", Ops: ops})
	}
	return p
}

func genWrites(r *rng.R, n int) []world.Op {
	var ops []world.Op
	seg := arenaBytes / 2
	for i := 0; i < n; i++ {
		var off, ln int
		switch r.Pick(30, 30, 20, 20) {
		case 0: // small write anywhere
			ln = 1 + r.Intn(40)
			off = r.Intn(seg - ln)
		case 1: // straddle a page boundary of the segment (boundaries are resolved at run time: N<0)
			ln = 2 + r.Intn(60)
			off = -(1 + r.Intn(ln-1)) // negative: "this many bytes before the k-th page boundary"
		case 2: // long write: 1-2 boundaries
			ln = 4096 + r.Intn(4905)
			off = r.Intn(seg - ln)
		case 3: // the length goom itself writes
			ln = 13
			off = r.Intn(seg - ln)
		}
		ops = append(ops, world.Op{K: "mwrite", N: off, F: ln, V: r.U64(), B: r.Intn(3)})
		if r.Chance(200) {
			ops = append(ops, ops[len(ops)-1]) // the same bytes to the same place again
		}
	}
	return ops
}

type shared struct {
	base     uintptr
	model    []byte // expected arena contents
	inflight [2]struct {
		on   bool
		off  int
		data []byte
	}
}

//go:norace
func (s *shared) setInflight(w, off int, data []byte) {
	s.inflight[w].on, s.inflight[w].off, s.inflight[w].data = true, off, data
}

//go:norace
func (s *shared) clearInflight(w int, commit bool) {
	f := &s.inflight[w]
	if commit {
		for i, b := range f.data {
			s.model[f.off+i] = b
		}
	}
	f.on = false
}

// cellValues returns the acceptable return values of cell c right now.
//
//go:norace
func (s *shared) cellValues(c int) (int, int, bool) {
	cur := make([]byte, asm.CellSize)
	for i := range cur {
		cur[i] = s.model[c*asm.CellSize+i]
	}
	alt := make([]byte, asm.CellSize)
	for i := range alt {
		alt[i] = cur[i]
	}
	changed := false
	for w := range s.inflight {
		f := &s.inflight[w]
		if !f.on {
			continue
		}
		for i := range alt {
			p := c*asm.CellSize + i
			if p >= f.off && p < f.off+len(f.data) {
				alt[i] = f.data[p-f.off]
				changed = true
			}
		}
	}
	v := func(b []byte) int { return int(b[1]) | int(b[2])<<8 | int(b[3])<<16 | int(b[4])<<24 }
	return v(cur), v(alt), changed
}

//go:norace
func (s *shared) inflightRange() (int, int, bool) {
	for w := range s.inflight {
		if s.inflight[w].on {
			return s.inflight[w].off, len(s.inflight[w].data), true
		}
	}
	return 0, 0, false
}

// compareSegment compares live arena bytes [lo,hi) with the model.
//
//go:norace
//go:nocheckptr
func (s *shared) compare(lo, hi int) int {
	live := unsafe.Slice((*byte)(unsafe.Pointer(s.base)), arenaBytes)
	for i := lo; i < hi; i++ {
		if live[i] != s.model[i] {
			return i
		}
	}
	return -1
}

//go:norace
//go:nocheckptr
func (s *shared) liveEquals(off int, data []byte) bool {
	live := unsafe.Slice((*byte)(unsafe.Pointer(s.base)), arenaBytes)
	for i, b := range data {
		if live[off+i] != b {
			return false
		}
	}
	return true
}

//go:norace
func (s *shared) modelSlice(off, n int) []byte {
	out := make([]byte, n)
	for i := range out {
		out[i] = s.model[off+i]
	}
	return out
}

func pattern(r *rng.R, abs, n int) []byte {
	d := make([]byte, n)
	for i := range d {
		switch (abs + i) % asm.CellSize {
		case 0:
			d[i] = 0xB8
		case 1, 2:
			d[i] = byte(r.U64())
		case 3, 4:
			d[i] = 0
		case 5:
			d[i] = 0xC3
		default:
			d[i] = 0xCC
		}
	}
	return d
}

//go:nocheckptr
func callCode(addr uintptr) int {
	code := addr
	fv := &code
	f := *(*func() int)(unsafe.Pointer(&fv))
	return f()
}

// process-global model of the arena (writes persist across the plans of one process)
var arena *shared

func catch(f func()) (pv interface{}) {
	defer func() { pv = recover() }()
	f()
	return nil
}

// Exec runs the plan.
func (W) Exec(p *world.Plan, env *world.Env) {
	img := env.Image
	base := img.Lookup(arenaName)
	if base == 0 {
		env.Res.Verdict = "harness"
		env.Res.Msg = "arena symbol not found"
		return
	}
	if arena == nil {
		arena = &shared{base: base}
		arena.model = append([]byte(nil), img.Pristine[base-img.Start:base-img.Start+arenaBytes]...)
	}
	arenaRegion := simenv.Region{Addr: base, Len: arenaBytes, Kind: simenv.RegionAny, Name: "arena"}
	if p.Knobs["mode"] == 1 {
		execSweep(p, env, arenaRegion)
		return
	}
	if p.Knobs["mode"] == 2 {
		// a write for an origin placeholder must stay inside the placeholder's own body
		if len(p.Tasks) != 1 {
			env.Res.Verdict = "invalid"
			return
		}
		originw.ExtraRegions = []simenv.Region{arenaRegion}
		at := ""
		task := func() {
			for i, op := range p.Tasks[0].Ops {
				simcore.Yield(simcore.SiteOp, uintptr(i))
				if op.K != "shape" {
					continue
				}
				at = fmt.Sprintf("op#%d shape %s", i, asm.Shapes[op.N%len(asm.Shapes)].Name)
				originw.DoShape(env, nil, op, at)
				env.Op()
			}
		}
		res := simcore.Run(p.SchedConfig(), []func(){task})
		env.Res.Merge(res)
		if pv := res.Panics[0]; pv != nil {
			if _, ok := pv.(world.Failure); !ok && !env.Failed() {
				env.Res.At = at
				env.FailNoUnwind("crash/panic", "unexpected panic at %s: %v", at, pv)
			}
		}
		env.Res.Nontriv = true
		return
	}
	faults := p.Knobs["faults"] == 1
	s := arena
	pageSize := 4096
	var tasks []func()
	nWriters := 0
	for _, t := range p.Tasks {
		if t.Role == "writer" {
			nWriters++
		}
	}
	if nWriters == 0 || nWriters > 2 || (faults && len(p.Tasks) != 1) {
		env.Res.Verdict = "invalid"
		return
	}
	seg := arenaBytes / 2
	wi := 0
	for ti, t := range p.Tasks {
		ti, t := ti, t
		switch t.Role {
		case "writer":
			w := wi
			wi++
			segLo := w * seg
			tasks = append(tasks, func() {
				for i, op := range t.Ops {
					simcore.Yield(simcore.SiteOp, uintptr(i))
					ln := op.F
					off := op.N
					if ln < 1 {
						ln = 1
					}
					if off < 0 {
						// straddle the (op.B+1)-th page boundary inside the segment
						first := (int(s.base)+segLo+pageSize-1)/pageSize*pageSize - int(s.base) - segLo
						b := first + (op.B%2)*pageSize
						off = b + off
						if off < 0 {
							off = 0
						}
					}
					if off+ln > seg {
						ln = seg - off
					}
					abs := segLo + off
					data := pattern(rng.Derive(op.V, 1), abs, ln)
					old := s.modelSlice(abs, ln)
					s.setInflight(w, abs, data)
					at := fmt.Sprintf("writer%d op#%d WriteTo(arena+%d, %d bytes)", w, i, abs, ln)
					var err error
					pv := catch(func() { err = memory.WriteTo(s.base+uintptr(abs), data) })
					env.Check()
					env.T("mwrite %d %d panic=%v", abs, ln, pv != nil)
					if pv != nil || err != nil {
						if !faults {
							s.clearInflight(w, false)
							env.FailAt(at, "mem/write-failed", "WriteTo failed without an injected fault: %v %v", pv, err)
						}
						// injected failure: all-old or all-new, never a mixture
						if s.liveEquals(abs, data) {
							s.clearInflight(w, true)
						} else if s.liveEquals(abs, old) {
							s.clearInflight(w, false)
						} else {
							s.clearInflight(w, false)
							env.FailAt(at, "mem/torn-write", "after a failed WriteTo the target range holds a mixture of old and new bytes")
						}
						env.Probe("write_failed_under_fault")
					} else {
						if !s.liveEquals(abs, data) {
							// under an injected RWX denial goom's fallback path must still land the data
							s.clearInflight(w, false)
							env.FailAt(at, "mem/data-mismatch", "after WriteTo the target range does not hold the data")
						}
						s.clearInflight(w, true)
						if faults {
							// a write that REPORTS success ends with its pages read+execute again on every path
							// (also the fallback path, also when an earlier failed write had left them writable)
							for a := (s.base + uintptr(abs)) &^ uintptr(pageSize-1); a < s.base+uintptr(abs+ln); a += uintptr(pageSize) {
								if pm := simenv.PermsAt(a); len(pm) >= 3 && (pm[1] == 'w' || pm[2] != 'x') {
									env.FailAt(at, "pages/writable-after-success", "WriteTo returned without error but page %#x of the written range is mapped %s", a, pm)
								}
							}
						}
					}
					// own segment exactly as modelled, nothing outside the arena touched
					if bad := s.compare(segLo, segLo+seg); bad >= 0 {
						env.FailAt(at, "mem/stray-arena-byte", "arena byte %d (outside the written range [%d,%d)) differs from the model", bad, abs, abs+ln)
					}
					if msg := img.Check(append(originw.ShapeRegions(img), arenaRegion)); msg != "" {
						env.FailAt(at, "image/stray", "%s", msg)
					}
					if !faults {
						if msg := img.CheckPages(simcore.InRWXWindow()); msg != "" {
							env.FailAt(at, "pages/writable", "%s", msg)
						}
					}
					if (abs%pageSize)+ln > pageSize || (int(s.base)+abs)/pageSize != (int(s.base)+abs+ln-1)/pageSize {
						env.Probe("write_straddles_page")
					}
					env.Op()
				}
			})
		case "caller":
			tasks = append(tasks, func() {
				for i, op := range t.Ops {
					simcore.Yield(simcore.SiteCall, uintptr(i))
					r := rng.Derive(op.W, 2)
					c := r.Intn(asm.ArenaCells)
					mid := simcore.InRWXWindow()
					if off, n, ok := s.inflightRange(); ok && r.Chance(800) {
						// a cell inside or next to the range being written
						c = (off + r.Intn(n+asm.CellSize)) / asm.CellSize
						if c >= asm.ArenaCells {
							c = asm.ArenaCells - 1
						}
					}
					if mid {
						simcore.NoteCallerOnRWX()
						env.Check()
						if msg := img.CheckPages(true); msg != "" {
							env.FailAt(fmt.Sprintf("caller task %d op#%d", ti, i), "pages/not-executable-midwrite", "%s", msg)
						}
					}
					a, b, _ := s.cellValues(c)
					got := callCode(s.base + uintptr(c*asm.CellSize))
					env.Check()
					if got != a && got != b {
						env.FailAt(fmt.Sprintf("caller task %d op#%d", ti, i), "mem/cell-value", "arena cell %d returned %d, want %d (or %d while its write is in flight)", c, got, a, b)
					}
					env.Op()
				}
			})
		}
	}
	res := simcore.Run(p.SchedConfig(), tasks)
	env.Res.Merge(res)
	for i, pv := range res.Panics[:len(tasks)] {
		if pv != nil {
			if _, ok := pv.(world.Failure); !ok && !env.Failed() {
				env.Res.At = fmt.Sprintf("task %d", i)
				env.FailNoUnwind("crash/panic", "task %d: unexpected panic: %v", i, pv)
			}
		}
	}
	if faults {
		// an injected failure of the restoring mprotect legitimately leaves pages RWX: put the
		// arena pages back so that the next plan of this process starts from r-x
		restoreArenaProt(s.base)
		simcore.ResetPageTable()
	}
	if env.Failed() {
		return
	}
	// quiescence: whole arena == model, rest of the image pristine, pages r-x
	env.Check()
	if bad := s.compare(0, arenaBytes); bad >= 0 {
		env.Res.At = "quiescence"
		env.FailNoUnwind("mem/stray-arena-byte", "arena byte %d differs from the model at quiescence", bad)
		return
	}
	if msg := img.Check(append(originw.ShapeRegions(img), arenaRegion)); msg != "" {
		env.FailNoUnwind("image/stray", "%s", msg)
		return
	}
	if !faults {
		if msg := img.CheckPages(false); msg != "" {
			env.FailNoUnwind("pages/writable", "%s", msg)
			return
		}
	}
	env.Res.Nontriv = res.Stats.Switches > 0 || len(res.Stats.Faults) > 0
	_ = hist.Targets
}

func execSweep(p *world.Plan, env *world.Env, arenaRegion simenv.Region) {
	img := env.Image
	if len(p.Tasks) != 1 {
		env.Res.Verdict = "invalid"
		return
	}
	repl := func() {}
	at := ""
	task := func() {
		for i, op := range p.Tasks[0].Ops {
			simcore.Yield(simcore.SiteOp, uintptr(i))
			if op.K == "tiny" {
				at = fmt.Sprintf("op#%d tiny routine %d", i, op.T)
				execTiny(env, img, op, at, append(originw.ShapeRegions(img), arenaRegion), repl)
				env.Op()
				continue
			}
			entry := img.Lookup(op.S)
			if entry == 0 {
				continue
			}
			at = fmt.Sprintf("op#%d patch %s", i, op.S)
			ext := img.Extent(entry)
			var g *patch.Guard
			var err error
			pv := catch(func() { g, err = patch.Ptr(entry, repl) })
			env.Check()
			base := append(originw.ShapeRegions(img), arenaRegion)
			if pv != nil || err != nil || g == nil {
				env.Probe("sweep_refused")
				if msg := img.Check(base); msg != "" {
					env.FailAt(at, "mem/refused-but-written", "patch of %s was refused (%v %v) but the image changed: %s", op.S, pv, err, msg)
				}
				env.Op()
				continue
			}
			g.Apply()
			env.Check()
			if ext < 13 {
				env.FailAt(at, "mem/too-short-accepted", "%s has only %d bytes before the next symbol but the 13-byte jump was written", op.S, ext)
			}
			if msg := img.Check(append(base, simenv.Region{Addr: entry, Len: 13, Kind: simenv.RegionJump, Name: op.S})); msg != "" {
				env.FailAt(at, "image/stray", "after patching %s: %s", op.S, msg)
			}
			if img.CheckJump(entry) != "" {
				env.FailAt(at, "mem/jump-missing", "after Apply the entry of %s does not hold the jump: %s", op.S, img.CheckJump(entry))
			}
			if msg := img.CheckPages(false); msg != "" {
				env.FailAt(at, "pages/writable", "after patching %s: %s", op.S, msg)
			}
			env.Probe("sweep_patched")
			if (entry & 4095) == 4096-32 {
				env.Probe("entry_in_last_slot_of_page") // functions are 32-byte aligned: the closest an entry gets to a page end
			}
			if img.SymSize(entry) < 13 {
				env.Probe("function_code_shorter_than_jump")
			}
			if op.N&1 == 1 {
				// re-apply the identical jump (Guard.Restore): a write of bytes that are already there
				g.Restore()
				env.Check()
				if msg := img.CheckPages(false); msg != "" {
					env.FailAt(at, "pages/writable", "after Restore (identical jump rewritten) on %s: %s", op.S, msg)
				}
				if img.CheckJump(entry) != "" {
					env.FailAt(at, "mem/jump-missing", "after Restore the entry of %s does not hold the jump", op.S)
				}
				env.Probe("identical_bytes_rewritten")
			}
			g.UnpatchWithLock()
			if op.N&2 == 2 {
				// a second unpatch writes the original bytes over themselves
				g.UnpatchWithLock()
				env.Probe("identical_bytes_rewritten")
			}
			env.Check()
			if msg := img.Check(base); msg != "" {
				env.FailAt(at, "image/not-restored", "after unpatching %s: %s", op.S, msg)
			}
			if msg := img.CheckPages(false); msg != "" {
				env.FailAt(at, "pages/writable", "after unpatching %s: %s", op.S, msg)
			}
			env.T("ptr %s ok", op.S)
			env.Op()
		}
	}
	res := simcore.Run(p.SchedConfig(), []func(){task})
	env.Res.Merge(res)
	if pv := res.Panics[0]; pv != nil {
		if _, ok := pv.(world.Failure); !ok && !env.Failed() {
			env.Res.At = at
			env.FailNoUnwind("crash/panic", "unexpected panic at %s: %v", at, pv)
		}
	}
	env.Res.Nontriv = true
}

func callInt(addr uintptr) int {
	code := addr
	fv := &code
	f := *(*func() int)(unsafe.Pointer(&fv))
	return f()
}

// execTiny tries to patch one routine of asm.Tiny, whose distance to the next routine is 7..32
// bytes: goom must either refuse and change nothing, or keep the 13-byte jump inside the
// routine's own extent; the neighbours on both sides must keep working; Unpatch restores.
func execTiny(env *world.Env, img *simenv.Image, op world.Op, at string, base []simenv.Region, repl func()) {
	sym := img.Lookup(asm.Pkg + "Tiny.abi0")
	if sym == 0 || op.T < 0 || op.T >= len(asm.TinyRoutines) {
		env.FailAt(at, "harness/symbol", "Tiny.abi0 not found")
		return
	}
	rt := asm.TinyRoutines[op.T]
	entry := sym + uintptr(rt.Off)
	neighbours := func(when string, self bool) {
		for d := -1; d <= 1; d++ {
			j := op.T + d
			if j < 0 || j >= len(asm.TinyRoutines) || (d == 0 && !self) {
				continue
			}
			n := asm.TinyRoutines[j]
			if got := callInt(sym + uintptr(n.Off)); got != n.K {
				env.FailAt(at, "mem/neighbour-clobbered", "%s: routine %d of Tiny (%d bytes from routine %d) returns %#x, want %#x", when, j, n.Off-rt.Off, op.T, got, n.K)
			}
		}
	}
	neighbours("before", true)
	var g *patch.Guard
	var err error
	pv := catch(func() { g, err = patch.Ptr(entry, repl) })
	env.Check()
	if pv != nil || err != nil || g == nil {
		env.Probe(fmt.Sprintf("tiny_refused_extent_%d", rt.Extent))
		if msg := img.Check(base); msg != "" {
			env.FailAt(at, "mem/refused-but-written", "patch of a %d-byte routine was refused (%v %v) but the image changed: %s", rt.Extent, pv, err, msg)
		}
		neighbours("after the refused patch", true)
		return
	}
	g.Apply()
	env.Check()
	env.Probe(fmt.Sprintf("tiny_patched_extent_%d", rt.Extent))
	if rt.Extent < 13 {
		env.FailAt(at, "mem/too-short-accepted", "routine %d of Tiny has only %d bytes before the next routine but the 13-byte jump was written", op.T, rt.Extent)
	}
	if msg := img.Check(append(base, simenv.Region{Addr: entry, Len: 13, Kind: simenv.RegionJump, Name: "Tiny routine"})); msg != "" {
		env.FailAt(at, "image/stray", "after patching routine %d of Tiny (extent %d): %s", op.T, rt.Extent, msg)
	}
	neighbours("while patched", false)
	if msg := img.CheckPages(false); msg != "" {
		env.FailAt(at, "pages/writable", "after patching a tiny routine: %s", msg)
	}
	g.UnpatchWithLock()
	env.Check()
	if msg := img.Check(base); msg != "" {
		env.FailAt(at, "image/not-restored", "after unpatching routine %d of Tiny: %s", op.T, msg)
	}
	neighbours("after unpatch", true)
	env.T("tiny %d ok", op.T)
}

//go:nocheckptr
func restoreArenaProt(base uintptr) {
	lo := base &^ 4095
	hi := (base + arenaBytes + 4095) &^ 4095
	syscall.Mprotect(unsafe.Slice((*byte)(unsafe.Pointer(lo)), int(hi-lo)), syscall.PROT_READ|syscall.PROT_EXEC)
}
