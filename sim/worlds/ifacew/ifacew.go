// Package ifacew is world W-IFACE (C07): histories of interface-variable mocks (Apply and
// As().Return per method, in any order and subset, on several variables of the same and of
// different types), calls of every method through the variable, builder dropped, Reset, with GC
// events at every yield including the ones between two method mocks.
package ifacew

import (
	"fmt"
	"reflect"
	"sort"
	"strings"
	"unsafe"

	mocker "github.com/tencent/goom"
	"github.com/tencent/goom/verifsim/model"
	"github.com/tencent/goom/verifsim/rng"
	"github.com/tencent/goom/verifsim/simcore"
	"github.com/tencent/goom/verifsim/simenv"
	"github.com/tencent/goom/verifsim/val"
	"github.com/tencent/goom/verifsim/world"
	"github.com/tencent/goom/verifsim/zoo/ifc"
)

// W is the world.
type W struct{}

func init() {
	world.Register(W{})
	world.PropWorld["C07"] = "iface"
}

// Name of the world.
func (W) Name() string { return "iface" }

type vkey struct{ t, n int }

type gvar struct {
	builder int // builder that mocks it (-1 none); one builder per variable and history
	dropped bool
	stub    map[int]bool // methods whose current epoch is a stub (a second bare Return is not generated)
	clauses map[int]int  // When clauses configured per method in the current epoch
	// needApply: user code has re-assigned the variable; only an Apply is known to put the mock
	// back (a stub call that continues an existing When does not touch the variable at all)
	needApply bool
}

type gm struct{ v map[vkey]*gvar }

func (m *gm) g(k vkey) *gvar {
	if m.v[k] == nil {
		m.v[k] = &gvar{builder: -1, stub: map[int]bool{}}
	}
	return m.v[k]
}

func (m *gm) step(op world.Op) bool {
	switch op.K {
	case "iapply", "ireturn", "ireturns", "iwhen":
		if op.T < 0 || op.T >= len(ifc.Ifaces) || op.N < 0 || op.N > 2 || op.F < 0 || op.F >= len(ifc.Ifaces[op.T].Methods) {
			return false
		}
		if op.K != "iapply" && ifc.Ifaces[op.T].Methods[op.F].Typ.NumOut() == 0 {
			return false
		}
		if op.K == "iwhen" && !simpleMethod(ifc.Ifaces[op.T].Methods[op.F]) {
			return false
		}
		if gg := m.g(vkey{op.T, op.N}); gg.needApply {
			if op.K != "iapply" {
				return false
			}
			gg.needApply = false
		}
		g := m.g(vkey{op.T, op.N})
		if g.dropped || (g.builder != -1 && g.builder != op.B) {
			return false
		}
		switch op.K {
		case "ireturn", "ireturns":
			if g.stub[op.F] {
				return false // default first, and only once per stub epoch
			}
			g.stub[op.F] = true
		case "iwhen":
			if g.clauses == nil {
				g.clauses = map[int]int{}
			}
			if g.clauses[op.F] >= 2 {
				return false
			}
			g.clauses[op.F]++
			g.stub[op.F] = true
		default:
			g.stub[op.F] = false
			if g.clauses != nil {
				g.clauses[op.F] = 0
			}
		}
		g.builder = op.B
	case "reset":
		for _, g := range m.v {
			if g.builder == op.B && !g.dropped {
				g.stub = map[int]bool{}
				g.clauses = nil
				g.needApply = false
			}
		}
	case "dropref":
		for _, g := range m.v {
			if g.builder == op.B {
				g.dropped = true
			}
		}
	case "icall", "icallall":
		if op.T < 0 || op.T >= len(ifc.Ifaces) || op.N < 0 || op.N > 2 {
			return false
		}
		if op.K == "icall" && (op.F < 0 || op.F >= len(ifc.Ifaces[op.T].Methods)) {
			return false
		}
	case "iassign":
		if op.T < 0 || op.T >= len(ifc.Ifaces) || op.N < 0 || op.N > 2 {
			return false
		}
		g := m.g(vkey{op.T, op.N})
		if g.builder == -1 || g.dropped {
			return false // only interesting between two mocks of a live builder
		}
		g.needApply = true
	case "ilook":
		// a lookup that installs nothing: Interface(&v), .Method(name) or .Method(name).As(sig)
		if op.T < 0 || op.T >= len(ifc.Ifaces) || op.N < 0 || op.N > 2 || op.F < 0 || op.F >= len(ifc.Ifaces[op.T].Methods) || op.V > 2 {
			return false
		}
		g := m.g(vkey{op.T, op.N})
		if g.dropped || (g.builder != -1 && g.builder != op.B) {
			return false
		}
		if g.stub[op.F] && op.V == 2 {
			return false // As() on a method whose stub is configured would start another template: not a documented form
		}
		g.builder = op.B
	case "gc", "checkvars":
	default:
		return false
	}
	return true
}

// simpleMethod: every parameter (after the context) is a plain comparable scalar or string.
func simpleMethod(m *ifc.Method) bool {
	if m.Typ.NumIn() < 2 {
		return false
	}
	for i := 1; i < m.Typ.NumIn(); i++ {
		switch m.Typ.In(i).Kind() {
		case reflect.Int, reflect.String, reflect.Bool, reflect.Float64:
		default:
			return false
		}
	}
	return true
}

func wellFormed(p *world.Plan) bool {
	if len(p.Tasks) != 1 {
		return false
	}
	m := &gm{v: map[vkey]*gvar{}}
	for _, op := range p.Tasks[0].Ops {
		if !m.step(op) {
			return false
		}
	}
	return true
}

// Gen builds a history.
func (W) Gen(prop string, seed uint64, tier string) *world.Plan {
	if seed%17 == 5 {
		return genDuo(prop, seed)
	}
	r := rng.Derive(seed, 0x1fac)
	p := &world.Plan{Prop: prop, World: "iface", Seed: seed}
	p.Sched.GCPermille = []int{0, 40, 150, 400}[r.Intn(4)]
	p.Sched.MaxGC = 6
	nB := 1 + r.Intn(2)
	// working set: 1-3 variables, biased to same-type pairs
	var ws []vkey
	t0 := int(seed % uint64(len(ifc.Ifaces)))
	ws = append(ws, vkey{t0, r.Intn(3)})
	for len(ws) < 1+r.Intn(3) {
		if r.Chance(600) {
			ws = append(ws, vkey{t0, r.Intn(3)})
		} else {
			ws = append(ws, vkey{r.Intn(len(ifc.Ifaces)), r.Intn(3)})
		}
	}
	m := &gm{v: map[vkey]*gvar{}}
	n := 4 + r.Intn(24)
	var ops []world.Op
	for tries := 0; len(ops) < n && tries < 600; tries++ {
		k := ws[r.Intn(len(ws))]
		b := r.Intn(nB)
		if g := m.g(k); g.builder >= 0 {
			b = g.builder
		}
		nm := len(ifc.Ifaces[k.t].Methods)
		var op world.Op
		switch r.Pick(26, 14, 22, 12, 6, 4, 9, 8, 7, 9, 10, 5) {
		case 11:
			op = world.Op{K: "ilook", B: b, T: k.t, N: k.n, F: r.Intn(nm), V: uint64(r.Intn(3))}
		case 0:
			op = world.Op{K: "iapply", B: b, T: k.t, N: k.n, F: r.Intn(nm), V: r.U64()}
		case 1:
			op = world.Op{K: "ireturn", B: b, T: k.t, N: k.n, F: r.Intn(nm), V: r.U64()}
		case 2:
			op = world.Op{K: "icall", T: k.t, N: k.n, F: r.Intn(nm), W: r.U64()}
		case 3:
			op = world.Op{K: "icallall", T: k.t, N: k.n, W: r.U64()}
		case 4:
			op = world.Op{K: "reset", B: r.Intn(nB)}
		case 5:
			op = world.Op{K: "dropref", B: r.Intn(nB)}
		case 6:
			op = world.Op{K: "gc"}
		case 7:
			op = world.Op{K: "checkvars"}
		case 8:
			op = world.Op{K: "ireturns", B: b, T: k.t, N: k.n, F: r.Intn(nm), V: r.U64(), W: uint64(2 + r.Intn(3))}
		case 9:
			op = world.Op{K: "iwhen", B: b, T: k.t, N: k.n, F: r.Intn(nm), V: r.U64(), W: r.U64()}
		case 10:
			op = world.Op{K: "iassign", T: k.t, N: k.n, F: r.Intn(2)}
		}
		if m.step(op) {
			ops = append(ops, op)
		}
	}
	p.Tasks = []world.Task{{Role: "history", Ops: ops}}
	if r.Chance(450) {
		p.Knobs = map[string]int{"ikept": 1}
	}
	return p
}

type mstate struct {
	rec     *ifc.Rec
	results []interface{}
	stub    bool
	model   *model.Stub // stub semantics (default sequence, clauses); nil for Apply callbacks
}

type vstate struct {
	// assigned: user code stored its own value into the variable after it was mocked; the mock is
	// back in the variable after the next mock operation on it
	assigned   bool
	reassigned bool // an assignment happened in this mock epoch (the restore check is then skipped)
	mocked     bool
	builder    int
	saved      [2]uintptr
	methods    map[int]*mstate
	dropped    bool
}

type exec struct {
	env      *world.Env
	builders map[int]*mocker.Builder
	vs       map[vkey]*vstate
	initial  map[vkey][2]uintptr
	at       string
	keep     []interface{}
	ikept    bool
	kept     map[vkey]*mocker.CachedInterfaceMocker
}

func words(p interface{}) [2]uintptr {
	return *(*[2]uintptr)(unsafe.Pointer(reflect.ValueOf(p).Pointer()))
}

func (x *exec) fail(sig, format string, a ...interface{}) {
	x.env.Res.At = x.at
	x.env.Fail(sig, format, a...)
}

func (x *exec) builder(b int) *mocker.Builder {
	if x.builders[b] == nil {
		x.builders[b] = mocker.Create()
	}
	return x.builders[b]
}

func catch(f func()) (pv interface{}) {
	defer func() { pv = recover() }()
	f()
	return nil
}

func (x *exec) v(k vkey) *vstate {
	if x.vs[k] == nil {
		x.vs[k] = &vstate{builder: -1, methods: map[int]*mstate{}}
	}
	return x.vs[k]
}

func vname(k vkey) string {
	return fmt.Sprintf("%s#%d", ifc.Ifaces[k.t].Name, k.n)
}

func (x *exec) callMethod(k vkey, mi int, seed uint64) {
	it := ifc.Ifaces[k.t]
	m := it.Methods[mi]
	s := x.v(k)
	if !s.mocked || s.assigned {
		return // un-mocked (or user-reassigned) variables are only checked for being untouched
	}
	r := rng.Derive(seed, 8)
	// arguments: the replacement's parameters minus the context
	args := make([]interface{}, m.Typ.NumIn()-1)
	for i := range args {
		if simpleMethod(m) && r.Chance(600) {
			args[i] = smallValue(r, m.Typ.In(i+1))
		} else {
			args[i] = val.Gen(r, m.Typ.In(i+1))
		}
	}
	ms := s.methods[mi]
	if ms != nil && ms.rec != nil {
		ms.rec.Take()
	}
	var got []interface{}
	pv := catch(func() { got = m.Call(it.Vars[k.n], args) })
	x.env.Check()
	x.env.T("icall %s.%s(%s) -> %s panic=%v", vname(k), m.Name, val.ShowList(args), val.ShowList(got), pv != nil)
	if ms == nil {
		if pv == nil {
			x.fail("iface/unmocked-no-panic", "%s.%s is not mocked: want a 'method not implements' panic, got %s", vname(k), m.Name, val.ShowList(got))
		}
		if s, ok := pv.(string); !ok || !strings.Contains(s, "method not implements") {
			x.fail("iface/unmocked-wrong-panic", "%s.%s is not mocked: want a 'method not implements' panic, got panic: %v", vname(k), m.Name, pv)
		}
		return
	}
	if pv != nil && ms.stub && ms.model != nil {
		probe := *ms.model
		probe.Clauses = nil
		for _, c := range ms.model.Clauses {
			cc := *c
			probe.Clauses = append(probe.Clauses, &cc)
		}
		if s, ok := pv.(string); ok && strings.Contains(s, "no suitable condition") && probe.Call(args).Panic {
			return // documented: no clause matches, no default
		}
	}
	if pv != nil {
		x.fail("iface/panic", "mocked %s.%s panicked: %v", vname(k), m.Name, pv)
	}
	if ms.stub && ms.model != nil {
		out := ms.model.Call(args)
		if out.Panic {
			x.fail("iface/stub-no-default", "stubbed %s.%s(%s): no clause matches and there is no default, but the call returned %s", vname(k), m.Name, val.ShowList(args), val.ShowList(got))
		}
		for i := range got {
			w := out.Results[i]
			if w == nil {
				w = reflect.Zero(m.Typ.Out(i)).Interface()
			}
			if !val.Same(got[i], w, true) {
				x.fail("iface/stub-result", "stubbed %s.%s(%s) returned %s, reference selects clause %d position %d = %s", vname(k), m.Name, val.ShowList(args), val.ShowList(got), out.Clause, out.Pos, val.ShowList(out.Results))
			}
		}
		return
	}
	if ms.stub {
		for i := range got {
			w := ms.results[i]
			if w == nil {
				w = reflect.Zero(m.Typ.Out(i)).Interface()
			}
			if !val.Same(got[i], w, true) {
				x.fail("iface/stub-result", "stubbed %s.%s returned %s, configured %s", vname(k), m.Name, val.ShowList(got), val.ShowList(ms.results))
			}
		}
		return
	}
	calls, seen, ctxOK := ms.rec.Take()
	if calls != 1 {
		x.fail("iface/dispatch", "%s.%s: its replacement ran %d times for one call (another method's replacement was reached?)", vname(k), m.Name, calls)
	}
	if !ctxOK {
		x.fail("iface/ctx", "%s.%s: replacement received a nil context", vname(k), m.Name)
	}
	if !val.SameList(seen, args, true) {
		x.fail("iface/args", "%s.%s: replacement saw %s, caller passed %s", vname(k), m.Name, val.ShowList(seen), val.ShowList(args))
	}
	if !val.SameList(got, ms.results, true) {
		x.fail("iface/results", "%s.%s: caller got %s, replacement returned %s", vname(k), m.Name, val.ShowList(got), val.ShowList(ms.results))
	}
	// no other replacement of this variable may have run
	for oi, o := range s.methods {
		if oi != mi && o.rec != nil {
			if c, _, _ := o.rec.Take(); c != 0 {
				x.fail("iface/dispatch", "calling %s.%s ran the replacement of %s", vname(k), m.Name, it.Methods[oi].Name)
			}
		}
	}
}

func eqLoose(a, b interface{}) bool { return val.Same(a, b, false) }

// smallValue draws from a small domain so that calls hit clauses.
func smallValue(r *rng.R, t reflect.Type) interface{} {
	switch t.Kind() {
	case reflect.String:
		return []string{"a", "b", ""}[r.Intn(3)]
	case reflect.Bool:
		return r.Intn(2) == 0
	case reflect.Float64:
		return float64(r.Intn(3))
	default:
		return r.Intn(3)
	}
}

func (x *exec) checkVars() {
	var ks []vkey
	for t := range ifc.Ifaces {
		for n := 0; n < 3; n++ {
			ks = append(ks, vkey{t, n})
		}
	}
	for _, k := range ks {
		s := x.vs[k]
		w := words(ifc.Ifaces[k.t].Vars[k.n])
		x.env.Check()
		if s != nil && s.reassigned {
			continue
		}
		if s == nil || !s.mocked {
			want := x.initial[k]
			if w != want {
				x.fail("iface/other-var", "variable %s is not mocked but its words changed: %x, want %x", vname(k), w, want)
			}
			continue
		}
		if w[0] == 0 {
			x.fail("iface/nil", "variable %s is mocked but nil", vname(k))
		}
	}
}

func (x *exec) step(op world.Op) {
	switch op.K {
	case "iapply", "ireturn", "ireturns", "iwhen":
		k := vkey{op.T, op.N}
		it := ifc.Ifaces[op.T]
		m := it.Methods[op.F]
		s := x.v(k)
		if !s.mocked {
			s.saved = words(it.Vars[op.N])
		}
		r := rng.Derive(op.V, 9)
		res := make([]interface{}, m.Typ.NumOut())
		for i := range res {
			res[i] = val.Gen(r, m.Typ.Out(i))
		}
		var cim *mocker.CachedInterfaceMocker
		if x.ikept {
			// the caller keeps the mocker returned by its first Interface(&v) lookup and goes on using it,
			// also after Reset (the statement's "histories of apply/stub/reset")
			cim = x.kept[k]
			if cim == nil {
				cim = x.builder(op.B).Interface(it.Vars[op.N])
				x.kept[k] = cim
			} else {
				x.env.Probe("interface_mocker_handle_reused")
			}
		} else {
			cim = x.builder(op.B).Interface(it.Vars[op.N])
		}
		im := cim.Method(m.Name)
		if op.K == "iapply" {
			rec := &ifc.Rec{Results: res}
			cb := m.Mk(rec)
			x.keep = append(x.keep, cb)
			im.Apply(cb)
			s.methods[op.F] = &mstate{rec: rec, results: res}
		} else if op.K == "ireturn" {
			tmpl := m.Mk(&ifc.Rec{})
			im.As(tmpl).Return(res...)
			s.methods[op.F] = &mstate{results: res, stub: true}
		} else if op.K == "ireturns" {
			n := int(op.W)
			if n < 2 {
				n = 2
			}
			var seq [][]interface{}
			var vals []interface{}
			for i := 0; i < n; i++ {
				rs := make([]interface{}, m.Typ.NumOut())
				for j := range rs {
					rs[j] = val.Gen(r, m.Typ.Out(j))
				}
				seq = append(seq, rs)
				if len(rs) == 1 {
					vals = append(vals, rs[0])
				} else {
					vals = append(vals, rs)
				}
			}
			tmpl := m.Mk(&ifc.Rec{})
			im.As(tmpl).Returns(vals...)
			s.methods[op.F] = &mstate{stub: true, model: &model.Stub{Default: seq, HasResults: true, Eq: eqLoose}}
			x.env.Probe("interface_result_sequence")
		} else { // iwhen
			cargs := make([]interface{}, m.Typ.NumIn()-1)
			ar := rng.Derive(op.W, 10)
			for i := range cargs {
				cargs[i] = smallValue(ar, m.Typ.In(i+1))
			}
			tmpl := m.Mk(&ifc.Rec{})
			im.As(tmpl).When(cargs...).Return(res...)
			ms := s.methods[op.F]
			if ms == nil || !ms.stub || ms.model == nil {
				var def [][]interface{}
				if ms != nil && ms.stub && ms.model == nil {
					def = [][]interface{}{ms.results} // an earlier plain Return is the default
				}
				ms = &mstate{stub: true, model: &model.Stub{Default: def, HasResults: true, Eq: eqLoose}}
				s.methods[op.F] = ms
			}
			alt := make([]model.ArgMatcher, len(cargs))
			for i, a := range cargs {
				alt[i] = model.ArgMatcher{Values: []interface{}{a}}
			}
			ms.model.Clauses = append(ms.model.Clauses, &model.Clause{Alts: [][]model.ArgMatcher{alt}, Results: [][]interface{}{res}})
			x.env.Probe("interface_when_clause")
		}
		s.mocked, s.builder, s.assigned = true, op.B, false
		x.env.T("%s %s.%s", op.K, vname(k), m.Name)
		x.checkVars()
		x.callMethod(k, op.F, op.V^0x77)
	case "iassign":
		k := vkey{op.T, op.N}
		s := x.v(k)
		if !s.mocked {
			// user code changes the variable while it is not mocked (e.g. between a Reset and the next
			// mock): this value is what the next mock must save and the Reset after it must put back
			ifc.Assign(ifc.Ifaces[op.T].Vars[op.N], op.F == 1)
			x.keep = append(x.keep, reflect.ValueOf(ifc.Ifaces[op.T].Vars[op.N]).Elem().Interface())
			x.initial[k] = words(ifc.Ifaces[op.T].Vars[op.N])
			x.env.Probe("variable_assigned_while_unmocked")
			x.env.T("iassign %s impl=%d (un-mocked)", vname(k), op.F)
			return
		}
		ifc.Assign(ifc.Ifaces[op.T].Vars[op.N], op.F == 1)
		s.assigned, s.reassigned = true, true
		x.env.Probe("variable_reassigned_between_mocks")
		x.env.T("iassign %s impl=%d", vname(k), op.F)
	case "ilook":
		k := vkey{op.T, op.N}
		it := ifc.Ifaces[op.T]
		m := it.Methods[op.F]
		before := words(it.Vars[op.N])
		var cim *mocker.CachedInterfaceMocker
		if x.ikept && x.kept[k] != nil {
			cim = x.kept[k]
		} else {
			cim = x.builder(op.B).Interface(it.Vars[op.N])
			if x.ikept {
				x.kept[k] = cim
			}
		}
		switch op.V {
		case 1:
			cim.Method(m.Name)
		case 2:
			if m.Typ.NumOut() > 0 {
				cim.Method(m.Name).As(m.Mk(&ifc.Rec{}))
			}
		}
		x.env.Check()
		if after := words(it.Vars[op.N]); after != before {
			x.fail("iface/lookup-changed-var", "a lookup that installs nothing changed variable %s: %x -> %x", vname(k), before, after)
		}
		if s := x.v(k); !s.mocked && s.builder == -1 {
			s.builder = op.B // Reset of this builder now visits the (empty) mocker of this variable
		}
		x.env.Probe("interface_lookup_without_mock")
		x.env.T("ilook %s m%d v%d", vname(k), op.F, op.V)
	case "icall":
		x.callMethod(vkey{op.T, op.N}, op.F, op.W)
	case "icallall":
		for mi := range ifc.Ifaces[op.T].Methods {
			x.callMethod(vkey{op.T, op.N}, mi, op.W+uint64(mi))
		}
	case "reset":
		if x.builders[op.B] == nil {
			return
		}
		pv := catch(func() { x.builders[op.B].Reset() })
		if pv != nil {
			x.fail("iface/reset-panic", "Builder.Reset panicked: %v", pv)
		}
		var ks []vkey
		for k := range x.vs {
			ks = append(ks, k)
		}
		sort.Slice(ks, func(i, j int) bool { return ks[i].t*3+ks[i].n < ks[j].t*3+ks[j].n })
		for _, k := range ks {
			s := x.vs[k]
			if s.mocked && s.builder == op.B && !s.dropped {
				w := words(ifc.Ifaces[k.t].Vars[k.n])
				x.env.Check()
				if w != s.saved && !s.reassigned {
					x.fail("iface/restore", "after Reset variable %s holds %x, want the value it held before its first mock %x", vname(k), w, s.saved)
				}
				*s = vstate{builder: -1, methods: map[int]*mstate{}}
			}
		}
		x.env.T("reset b%d", op.B)
		x.checkVars()
	case "dropref":
		delete(x.builders, op.B)
		x.keep = nil
		for _, s := range x.vs {
			if s.builder == op.B && s.mocked {
				s.dropped = true
			}
		}
		x.env.Probe("builder_dropped")
	case "gc":
		simenv.GC()
		x.env.Probe("explicit_gc")
	case "checkvars":
		x.checkVars()
	}
}

// Exec runs the plan.
func (W) Exec(p *world.Plan, env *world.Env) {
	if p.Knobs["duo"] == 1 {
		execDuo(p, env)
		return
	}
	if !wellFormed(p) {
		env.Res.Verdict = "invalid"
		return
	}
	ifc.ResetVars()
	x := &exec{env: env, builders: map[int]*mocker.Builder{}, vs: map[vkey]*vstate{}, initial: map[vkey][2]uintptr{},
		ikept: p.Knobs["ikept"] == 1, kept: map[vkey]*mocker.CachedInterfaceMocker{}}
	for t, it := range ifc.Ifaces {
		for n := range it.Vars {
			x.initial[vkey{t, n}] = words(it.Vars[n])
		}
	}
	// keep the initial implementations alive while the words are compared numerically
	var pin []interface{}
	for _, it := range ifc.Ifaces {
		for _, v := range it.Vars {
			pin = append(pin, reflect.ValueOf(v).Elem().Interface())
		}
	}
	task := func() {
		for i, op := range p.Tasks[0].Ops {
			x.at = fmt.Sprintf("op#%d %s b%d %s m%d", i, op.K, op.B, vname(vkey{op.T % len(ifc.Ifaces), op.N % 3}), op.F)
			simcore.Yield(simcore.SiteOp, uintptr(i))
			x.step(op)
			env.Op()
		}
		x.at = "final"
		var bs []int
		for b := range x.builders {
			bs = append(bs, b)
		}
		sort.Ints(bs)
		for _, b := range bs {
			x.step(world.Op{K: "reset", B: b})
		}
		x.checkVars()
	}
	res := simcore.Run(p.SchedConfig(), []func(){task})
	env.Res.Merge(res)
	if pv := res.Panics[0]; pv != nil {
		if _, ok := pv.(world.Failure); !ok && !env.Failed() {
			env.Res.At = x.at
			env.FailNoUnwind("crash/panic", "unexpected panic at %s: %v", x.at, pv)
		}
	}
	_ = pin
	ifc.ResetVars()
	nm := 0
	for _, op := range p.Tasks[0].Ops {
		if op.K == "iapply" || op.K == "ireturn" || op.K == "ireturns" || op.K == "iwhen" {
			nm++
		}
	}
	env.Res.Nontriv = nm >= 2 || res.Stats.GC > 0
}

// ---- "duo": two tasks, each with its own builder and its own variable of one interface type, mock
// the same method with the SAME replacement function value while anonymous executable mappings are
// unavailable (every stub then comes from the built-in reserve and is written through
// memory.WriteTo, whose seams let the other task run between "space acquired" and "stub written").
// Different variables are mocked independently (C07), also from different goroutines (C11).

func genDuo(prop string, seed uint64) *world.Plan {
	r := rng.Derive(seed, 0xd00)
	p := &world.Plan{Prop: prop, World: "iface", Seed: seed, Knobs: map[string]int{"duo": 1}}
	t := r.Intn(len(ifc.Ifaces))
	p.Knobs["dt"] = t
	p.Knobs["dm"] = r.Intn(len(ifc.Ifaces[t].Methods))
	p.Sched.Permille = []int{300, 600, 1000}[r.Intn(3)]
	p.Sched.FaultPermille = map[string]int{"mmap": 1000}
	p.Sched.FaultKinds = map[string][]int{"mmap": {simcore.FaultEACCES, simcore.FaultENOMEM}}
	p.Sched.MaxFaults = 1 << 20
	p.Sched.MaxSteps = 100000
	for ti := 0; ti < 2; ti++ {
		ops := []world.Op{{K: "dapply"}}
		for i, n := 0, 1+r.Intn(3); i < n; i++ {
			ops = append(ops, world.Op{K: "dcall", W: r.U64()})
		}
		if r.Chance(300) {
			ops = append(ops, world.Op{K: "dapply"}, world.Op{K: "dcall", W: r.U64()})
		}
		p.Tasks = append(p.Tasks, world.Task{Role: "imocker", Ops: ops})
	}
	return p
}

func execDuo(p *world.Plan, env *world.Env) {
	t, mi := p.Knobs["dt"], p.Knobs["dm"]
	if len(p.Tasks) != 2 || t < 0 || t >= len(ifc.Ifaces) || mi < 0 || mi >= len(ifc.Ifaces[t].Methods) {
		env.Res.Verdict = "invalid"
		return
	}
	ifc.ResetVars()
	defer ifc.ResetVars()
	it := ifc.Ifaces[t]
	m := it.Methods[mi]
	r := rng.Derive(p.Seed, 77)
	res := make([]interface{}, m.Typ.NumOut())
	for i := range res {
		res[i] = val.Gen(r, m.Typ.Out(i))
	}
	rec := &ifc.Rec{Results: res}
	cb := m.Mk(rec) // ONE function value, handed to both builders
	var tasks []func()
	for ti := range p.Tasks {
		ti := ti
		tasks = append(tasks, func() {
			b := mocker.Create()
			v := it.Vars[ti]
			before := words(v)
			at := func(i int, op world.Op) string {
				return fmt.Sprintf("imocker%d op#%d %s %s.%s", ti, i, op.K, it.Name, m.Name)
			}
			for i, op := range p.Tasks[ti].Ops {
				simcore.Yield(simcore.SiteOp, uintptr(i))
				switch op.K {
				case "dapply":
					if pv := catch(func() { b.Interface(v).Method(m.Name).Apply(cb) }); pv != nil {
						env.FailAt(at(i, op), "iface/apply-panic", "Apply of a well-formed interface mock panicked: %v", pv)
					}
				case "dcall":
					ar := rng.Derive(op.W, 8)
					args := make([]interface{}, m.Typ.NumIn()-1)
					for k := range args {
						args[k] = val.Gen(ar, m.Typ.In(k+1))
					}
					var got []interface{}
					if pv := catch(func() { got = m.Call(v, args) }); pv != nil {
						env.FailAt(at(i, op), "iface/panic", "mocked %s#%d.%s panicked: %v", it.Name, ti, m.Name, pv)
					}
					env.Check()
					for k := range res {
						if k < len(got) && !val.Same(got[k], res[k], false) {
							env.FailAt(at(i, op), "iface/dispatch", "%s#%d.%s returned %s, its replacement returns %s (another builder mocks another variable with the same replacement)", it.Name, ti, m.Name, val.ShowList(got), val.ShowList(res))
						}
					}
				default:
					env.FailAt(at(i, op), "harness/op", "unknown op %s", op.K)
				}
				env.Op()
			}
			if pv := catch(func() { b.Reset() }); pv != nil {
				env.FailAt(fmt.Sprintf("imocker%d reset", ti), "iface/reset-panic", "Builder.Reset panicked: %v", pv)
			}
			if w := words(v); w != before {
				env.FailAt(fmt.Sprintf("imocker%d reset", ti), "iface/restore", "after Reset variable %s#%d holds %x, want %x", it.Name, ti, w, before)
			}
		})
	}
	runRes := simcore.Run(p.SchedConfig(), tasks)
	env.Res.Merge(runRes)
	for i, pv := range runRes.Panics[:len(tasks)] {
		if pv != nil {
			if _, ok := pv.(world.Failure); !ok && !env.Failed() {
				env.Res.At = fmt.Sprintf("imocker%d", i)
				env.FailNoUnwind("crash/panic", "imocker%d: unexpected panic: %v", i, pv)
			}
		}
	}
	env.Res.Nontriv = runRes.Stats.Switches > 0
	env.Probe("two_builders_same_replacement_reserve_stubs")
}
