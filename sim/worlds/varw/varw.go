// Package varw is world W-VAR: histories of Set / Apply / Cancel / Reset over the variable zoo
// with GC events, checked against "first pre-mock value per builder" (C08).
package varw

import (
	"fmt"
	"reflect"
	"sort"

	mocker "github.com/tencent/goom"
	"github.com/tencent/goom/verifsim/rng"
	"github.com/tencent/goom/verifsim/simcore"
	"github.com/tencent/goom/verifsim/simenv"
	"github.com/tencent/goom/verifsim/val"
	"github.com/tencent/goom/verifsim/world"
	"github.com/tencent/goom/verifsim/zoo/vars"
)

// W is the world.
type W struct{}

func init() {
	world.Register(W{})
	world.PropWorld["C08"] = "var"
}

// Name of the world.
func (W) Name() string { return "var" }

type gvar struct {
	owner int // builder that currently has a live (not cancelled) mocker with a Set, -1 none
	touch int // builder that has a live mocker for it (looked up), -1 none
}

type gm struct{ v map[int]*gvar }

func (m *gm) g(i int) *gvar {
	if m.v[i] == nil {
		m.v[i] = &gvar{owner: -1, touch: -1}
	}
	return m.v[i]
}

// step: one variable is only ever handled by one live builder at a time.
func (m *gm) step(op world.Op) bool {
	if op.T < 0 || op.T >= len(vars.Vars) {
		return false
	}
	g := m.g(op.T)
	switch op.K {
	case "set", "vapply":
		if g.touch != -1 && g.touch != op.B {
			return false
		}
		g.touch, g.owner = op.B, op.B
	case "vcancel", "lookup":
		if g.touch != -1 && g.touch != op.B {
			return false
		}
		g.touch = op.B // a variable stays with one builder for the whole history
		if op.K == "vcancel" {
			g.owner = -1
		}
	case "reset":
		for _, x := range m.v {
			if x.touch == op.B {
				x.owner = -1
			}
		}
	case "read", "gc", "readall":
	default:
		return false
	}
	return true
}

func wellFormed(p *world.Plan) bool {
	if len(p.Tasks) != 1 {
		return false
	}
	m := &gm{v: map[int]*gvar{}}
	for _, op := range p.Tasks[0].Ops {
		if !m.step(op) {
			return false
		}
	}
	return true
}

// Gen builds a history.
func (W) Gen(prop string, seed uint64, tier string) *world.Plan {
	r := rng.Derive(seed, 0x7a5)
	p := &world.Plan{Prop: prop, World: "var", Seed: seed}
	p.Sched.GCPermille = []int{0, 50, 200}[r.Intn(3)]
	p.Sched.MaxGC = 4
	if r.Chance(350) {
		// the caller keeps the VarMock handle of its first lookup and keeps using it across
		// Cancel / Reset instead of asking the builder again
		p.Knobs = map[string]int{"handles": 1}
	}
	nB := 1 + r.Intn(2)
	nV := 1 + r.Intn(4)
	vs := []int{int(seed % uint64(len(vars.Vars)))}
	for len(vs) < nV {
		vs = append(vs, r.Intn(len(vars.Vars)))
	}
	m := &gm{v: map[int]*gvar{}}
	n := 3 + r.Intn(20)
	var ops []world.Op
	for tries := 0; len(ops) < n && tries < 500; tries++ {
		v := vs[r.Intn(len(vs))]
		b := r.Intn(nB)
		if g := m.g(v); g.touch >= 0 {
			b = g.touch
		}
		var op world.Op
		switch r.Pick(30, 10, 14, 10, 14, 6, 6, 6) {
		case 0:
			op = world.Op{K: "set", B: b, T: v, V: r.U64()}
		case 1:
			op = world.Op{K: "vapply", B: b, T: v, V: r.U64()}
		case 2:
			op = world.Op{K: "vcancel", B: b, T: v}
		case 3:
			op = world.Op{K: "reset", B: r.Intn(nB)}
			if r.Chance(300) && m.step(op) {
				ops = append(ops, op)
			}
		case 4:
			op = world.Op{K: "read", T: v}
		case 5:
			op = world.Op{K: "gc"}
		case 6:
			op = world.Op{K: "lookup", B: b, T: v}
		case 7:
			op = world.Op{K: "readall"}
		}
		if m.step(op) {
			ops = append(ops, op)
		}
	}
	p.Tasks = []world.Task{{Role: "history", Ops: ops}}
	return p
}

type vstate struct {
	saved   bool
	pre     interface{} // value before the first mock of the live mocker
	current interface{}
	owner   int
}

type exec struct {
	env      *world.Env
	builders map[int]*mocker.Builder
	st       map[int]*vstate
	pristine map[int]interface{}
	at       string
	// keepHandles: one VarMock handle per (builder, variable) for the whole history
	keepHandles bool
	handles     map[[2]int]mocker.VarMock
}

func deref(p interface{}) interface{} { return reflect.ValueOf(p).Elem().Interface() }

func (x *exec) builder(b int) *mocker.Builder {
	if x.builders[b] == nil {
		x.builders[b] = mocker.Create()
	}
	return x.builders[b]
}

func (x *exec) mock(b, vi int) mocker.VarMock {
	if x.keepHandles {
		if h := x.handles[[2]int{b, vi}]; h != nil {
			x.env.Probe("kept_var_handle_reused")
			return h
		}
	}
	v := vars.Vars[vi]
	var m mocker.VarMock
	if v.Path != "" {
		m = x.builder(b).UnExportedVar(v.Path)
	} else {
		m = x.builder(b).Var(v.Ptr)
	}
	if x.keepHandles {
		x.handles[[2]int{b, vi}] = m
	}
	return m
}

func (x *exec) fail(sig, format string, a ...interface{}) {
	x.env.Res.At = x.at
	x.env.Fail(sig, format, a...)
}

// genValue produces a value of the variable's type that Set accepts (no untyped nil).
func genValue(r *rng.R, t reflect.Type) interface{} {
	for i := 0; i < 20; i++ {
		v := val.GenV(r, t)
		if t.Kind() == reflect.Interface {
			if v.IsNil() {
				continue // an untyped nil cannot be expressed through Set(interface{})
			}
			return v.Elem().Interface()
		}
		return v.Interface()
	}
	return reflect.Zero(t).Interface()
}

func (x *exec) check(vi int) {
	v := vars.Vars[vi]
	want := x.pristine[vi]
	if s := x.st[vi]; s != nil && s.saved {
		want = s.current
	}
	x.env.Check()
	direct := deref(v.Ptr)
	via := v.Get()
	x.env.T("read %s = %s", v.Name, val.Show(direct))
	if !val.Same(direct, want, true) {
		x.fail("var/value", "variable %s holds %s, want %s", v.Name, val.Show(direct), val.Show(want))
	}
	if !val.Same(via, want, true) {
		x.fail("var/accessor", "accessor of %s returns %s, want %s", v.Name, val.Show(via), val.Show(want))
	}
}

func catch(f func()) (pv interface{}) {
	defer func() { pv = recover() }()
	f()
	return nil
}

func (x *exec) step(op world.Op) {
	switch op.K {
	case "set", "vapply":
		v := vars.Vars[op.T]
		nv := genValue(rng.Derive(op.V, 5), v.Typ)
		s := x.st[op.T]
		if s == nil {
			s = &vstate{}
			x.st[op.T] = s
		}
		if !s.saved {
			s.saved, s.pre, s.owner = true, deref(v.Ptr), op.B
		}
		s.current = nv
		var pv interface{}
		if op.K == "set" {
			pv = catch(func() { x.mock(op.B, op.T).Set(nv) })
		} else {
			ft := reflect.FuncOf(nil, []reflect.Type{v.Typ}, false)
			rv := reflect.New(v.Typ).Elem()
			rv.Set(reflect.ValueOf(nv))
			cb := reflect.MakeFunc(ft, func([]reflect.Value) []reflect.Value { return []reflect.Value{rv} }).Interface()
			pv = catch(func() { x.mock(op.B, op.T).Apply(cb) })
		}
		x.env.T("%s %s := %s", op.K, v.Name, val.Show(nv))
		if pv != nil {
			x.fail("var/set-panic", "%s on %s with %s panicked: %v", op.K, v.Name, val.Show(nv), pv)
		}
		x.check(op.T)
	case "lookup":
		x.mock(op.B, op.T)
	case "vcancel":
		v := vars.Vars[op.T]
		pv := catch(func() { x.mock(op.B, op.T).Cancel() })
		if pv != nil {
			x.fail("var/cancel-panic", "Cancel on the mocker of %s panicked: %v", v.Name, pv)
		}
		if s := x.st[op.T]; s != nil && s.saved {
			s.saved, s.current = false, nil
			want := s.pre
			got := deref(v.Ptr)
			if !val.Same(got, want, true) {
				x.fail("var/restore", "after Cancel %s holds %s, want its pre-mock value %s", v.Name, val.Show(got), val.Show(want))
			}
		}
		x.env.T("cancel %s", v.Name)
		x.check(op.T)
	case "reset":
		pv := catch(func() { x.builder(op.B).Reset() })
		if pv != nil {
			x.fail("var/reset-panic", "Builder.Reset panicked: %v", pv)
		}
		var ids []int
		for vi := range x.st {
			ids = append(ids, vi)
		}
		sort.Ints(ids)
		for _, vi := range ids {
			s := x.st[vi]
			if s.saved && s.owner == op.B {
				s.saved, s.current = false, nil
				got := deref(vars.Vars[vi].Ptr)
				if !val.Same(got, s.pre, true) {
					x.fail("var/restore", "after Reset %s holds %s, want its pre-mock value %s", vars.Vars[vi].Name, val.Show(got), val.Show(s.pre))
				}
			}
		}
		x.env.T("reset b%d", op.B)
		for _, vi := range ids {
			x.check(vi)
		}
	case "read":
		x.check(op.T)
	case "readall":
		for vi := range vars.Vars {
			x.check(vi)
		}
	case "gc":
		simenv.GC()
		x.env.Probe("explicit_gc")
	default:
		panic("var: unknown op " + op.K)
	}
}

// Exec runs the plan.
func (W) Exec(p *world.Plan, env *world.Env) {
	if !wellFormed(p) {
		env.Res.Verdict = "invalid"
		return
	}
	x := &exec{env: env, builders: map[int]*mocker.Builder{}, st: map[int]*vstate{}, pristine: map[int]interface{}{},
		keepHandles: p.Knobs["handles"] == 1, handles: map[[2]int]mocker.VarMock{}}
	for i, v := range vars.Vars {
		x.pristine[i] = deref(v.Ptr)
	}
	task := func() {
		for i, op := range p.Tasks[0].Ops {
			x.at = fmt.Sprintf("op#%d %s b%d %s", i, op.K, op.B, vars.Vars[op.T%len(vars.Vars)].Name)
			simcore.Yield(simcore.SiteOp, uintptr(i))
			x.step(op)
			env.Op()
		}
		x.at = "final"
		var bs []int
		for b := range x.builders {
			bs = append(bs, b)
		}
		sort.Ints(bs)
		for _, b := range bs {
			x.step(world.Op{K: "reset", B: b})
		}
		for vi := range vars.Vars {
			x.check(vi)
		}
	}
	res := simcore.Run(p.SchedConfig(), []func(){task})
	env.Res.Stats, env.Res.Fired = res.Stats, res.Fired
	if pv := res.Panics[0]; pv != nil {
		if _, ok := pv.(world.Failure); !ok && !env.Failed() {
			env.Res.At = x.at
			env.FailNoUnwind("crash/panic", "unexpected panic at %s: %v", x.at, pv)
		}
	}
	// restore the zoo for the next plan of the batch regardless of the outcome
	for i, v := range vars.Vars {
		reflect.ValueOf(v.Ptr).Elem().Set(reflectValueOf(x.pristine[i], v.Typ))
	}
	n := 0
	for _, op := range p.Tasks[0].Ops {
		if op.K == "set" || op.K == "vapply" {
			n++
		}
	}
	env.Res.Nontriv = n >= 2 || res.Stats.GC > 0
}

func reflectValueOf(v interface{}, t reflect.Type) reflect.Value {
	if v == nil {
		return reflect.Zero(t)
	}
	return reflect.ValueOf(v)
}
