// Package spacew is world W-STUBSPACE (C20): K requester tasks call stub.Acquire + stub.Write with
// seeded sizes until the reserve is exhausted, with the primary (mmap) path failing always, never
// or on a seeded subset of calls and preemption between the bump pointer's load and add. A
// reference allocator (set of intervals) decides disjointness, bounds, size, writability and
// executability.
package spacew

import (
	"fmt"
	"sort"
	"syscall"
	"unsafe"

	"github.com/tencent/goom/internal/bytecode/stub"
	"github.com/tencent/goom/verifsim/rng"
	"github.com/tencent/goom/verifsim/simcore"
	"github.com/tencent/goom/verifsim/simenv"
	"github.com/tencent/goom/verifsim/world"
)

// W is the world.
type W struct{}

func init() {
	world.Register(W{})
	world.PropWorld["C20"] = "space"
}

// Name of the world.
func (W) Name() string { return "space" }

// Gen builds a plan.
func (W) Gen(prop string, seed uint64, tier string) *world.Plan {
	r := rng.Derive(seed, 0x5bace)
	p := &world.Plan{Prop: prop, World: "space", Seed: seed, Knobs: map[string]int{}}
	k := 1 + r.Intn(4)
	p.Sched.Permille = []int{0, 50, 300, 1000}[r.Intn(4)]
	mm := []int{1000, 1000, 0, 500}[r.Intn(4)]
	p.Sched.FaultPermille = map[string]int{"mmap": mm}
	p.Sched.FaultKinds = map[string][]int{"mmap": {simcore.FaultEACCES, simcore.FaultENOMEM}}
	p.Sched.MaxFaults = 1 << 20
	p.Sched.MaxSteps = 200000
	if mm > 0 && r.Chance(150) {
		// separate configuration: stub.Write on the reserve path goes through memory.WriteTo, whose
		// mprotect calls may fail too; the request is then allowed to fail, never to corrupt
		p.Sched.FaultPermille["mprotect"] = 60
		p.Sched.FaultKinds["mprotect"] = []int{simcore.FaultEACCES, simcore.FaultENOMEM}
		p.Knobs["mprot"] = 1
	}
	big := r.Chance(300) // larger requests: exhaustion is reached
	for t := 0; t < k; t++ {
		var ops []world.Op
		n := 3 + r.Intn(20)
		if big {
			n = 10 + r.Intn(60)
		}
		for i := 0; i < n; i++ {
			var sz int
			switch r.Pick(50, 25, 10, 5, 5, 5) {
			case 0:
				sz = 6 + r.Intn(60)
			case 1:
				sz = 1 + r.Intn(256)
			case 2:
				sz = 4095 + r.Intn(3)
			case 3:
				sz = 0
			case 4:
				sz = 1 << 48
			case 5:
				sz = 48 // the size goom itself uses
			}
			if big && sz < 4000 && sz > 0 {
				sz *= 8
			}
			ops = append(ops, world.Op{K: "acq", N: sz, V: r.U64() & 0x7fffffff})
		}
		p.Tasks = append(p.Tasks, world.Task{Role: "requester", Ops: ops})
	}
	return p
}

type region struct {
	addr   uintptr
	n      int
	holder bool
	task   int
	seq    uint64
}

// process-global history of everything ever handed out (the bump pointer is process-global)
var handed []region

//go:nocheckptr
func callCode(addr uintptr) int {
	code := addr
	fv := &code
	f := *(*func() int)(unsafe.Pointer(&fv))
	return f()
}

// Exec runs the plan.
func (W) Exec(p *world.Plan, env *world.Env) {
	if len(p.Tasks) == 0 || len(p.Tasks) > simcore.MaxTasks {
		env.Res.Verdict = "invalid"
		return
	}
	hmin, hmax, _ := stub.HolderBounds()
	// the reserve's true extent comes from the symbol table, not from goom's own bookkeeping
	const phSym = "github.com/tencent/goom/internal/bytecode/stub.Placeholder.abi0"
	if s := env.Image.Lookup(phSym); s != 0 {
		e := s + env.Image.Extent(s) // up to the next symbol: the routine's code plus its own padding
		if hmin < s || hmax > e || hmin > hmax {
			env.Res.At = "before the run"
			env.FailNoUnwind("space/reserve-bounds", "goom's reserve [%#x,%#x) is not inside the placeholder routine [%#x,%#x) the linker laid out for it", hmin, hmax, s, e)
			return
		}
		env.T("reserve %d of %d", hmax-hmin, e-s)
		hmin, hmax = s, e // every later check uses the linker's bounds
	} else {
		env.Res.At = "before the run"
		env.FailNoUnwind("harness/symbol", "symbol %s not found", phSym)
		return
	}
	type rec struct {
		r        region
		err      error
		size     int
		writeErr interface{}
		got      int
		want     int
		ran      bool
	}
	recs := make([][]rec, len(p.Tasks))
	var tasks []func()
	for ti, t := range p.Tasks {
		ti, t := ti, t
		tasks = append(tasks, func() {
			for i, op := range t.Ops {
				simcore.Yield(simcore.SiteOp, uintptr(i))
				var rc rec
				rc.size = op.N
				sp, err := stub.Acquire(op.N)
				rc.err = err
				if err == nil {
					rc.r = region{addr: sp.Addr, n: op.N, holder: sp.Addr >= hmin && sp.Addr < hmax, task: ti, seq: simcore.Seq()}
					if op.N >= 6 && op.N < 1<<20 {
						k := int(op.V)
						code := []byte{0xB8, byte(k), byte(k >> 8), byte(k >> 16), byte(k >> 24), 0xC3}
						func() {
							defer func() { rc.writeErr = recover() }()
							if e := stub.Write(sp, code); e != nil {
								rc.writeErr = e
							}
						}()
						if rc.writeErr == nil {
							rc.want = k
							rc.got = callCode(sp.Addr)
							rc.ran = true
						}
					}
				}
				recs[ti] = append(recs[ti], rc)
				env.Op()
			}
		})
	}
	res := simcore.Run(p.SchedConfig(), tasks)
	env.Res.Merge(res)
	for i, pv := range res.Panics[:len(tasks)] {
		if pv != nil {
			env.Res.At = fmt.Sprintf("requester %d", i)
			env.FailNoUnwind("crash/panic", "requester %d: unexpected panic: %v", i, pv)
			return
		}
	}
	// ---- oracle over the recorded history (reference allocator = set of intervals)
	var all []rec
	for _, rs := range recs {
		all = append(all, rs...)
	}
	sort.SliceStable(all, func(i, j int) bool { return all[i].r.seq < all[j].r.seq })
	_, _, off := stub.HolderBounds()
	exhausted := 0
	for _, rc := range all {
		env.Check()
		env.T("acq %d err=%v holder=%v", rc.size, rc.err != nil, rc.r.holder)
		if rc.err != nil {
			exhausted++
			continue
		}
		r := rc.r
		if r.holder && (r.addr < hmin || r.addr+uintptr(r.n) > hmax) {
			env.Res.At = fmt.Sprintf("requester %d size %d", r.task, r.n)
			env.FailNoUnwind("space/outside-reserve", "region [%#x,+%d) handed out from the reserve lies outside its bounds [%#x,%#x)", r.addr, r.n, hmin, hmax)
			return
		}
		if !r.holder && r.n > 0 {
			// mmap path: the kernel gives whole pages; only overlap with earlier regions matters
		}
		for _, o := range handed {
			if o.n == 0 || r.n == 0 {
				continue
			}
			if r.addr < o.addr+uintptr(o.n) && o.addr < r.addr+uintptr(r.n) {
				env.Res.At = fmt.Sprintf("requester %d size %d", r.task, r.n)
				env.FailNoUnwind("space/overlap", "region [%#x,+%d) of requester %d overlaps region [%#x,+%d) handed out earlier to requester %d (holder=%v)", r.addr, r.n, r.task, o.addr, o.n, o.task, r.holder)
				return
			}
		}
		handed = append(handed, r)
		if rc.writeErr != nil && p.Knobs["mprot"] == 1 {
			env.Probe("write_failed_under_mprotect_fault")
			continue
		}
		if rc.writeErr != nil {
			env.Res.At = fmt.Sprintf("requester %d size %d", r.task, r.n)
			env.FailNoUnwind("space/not-writable", "stub.Write into region [%#x,+%d) failed: %v", r.addr, r.n, rc.writeErr)
			return
		}
		if rc.ran && rc.got != rc.want {
			env.Res.At = fmt.Sprintf("requester %d size %d", r.task, r.n)
			env.FailNoUnwind("space/not-executable", "code written into region [%#x,+%d) returned %d, want %d (overwritten by another requester?)", r.addr, r.n, rc.got, rc.want)
			return
		}
	}
	// later regions must not have clobbered earlier code: re-execute everything handed out in this plan
	for _, rc := range all {
		if rc.ran {
			env.Check()
			if got := callCode(rc.r.addr); got != rc.want {
				env.Res.At = fmt.Sprintf("requester %d size %d", rc.r.task, rc.r.n)
				env.FailNoUnwind("space/clobbered", "code in region [%#x,+%d) now returns %d, want %d: a later request was given overlapping space", rc.r.addr, rc.r.n, got, rc.want)
				return
			}
		}
	}
	if off > hmax {
		// the bump pointer may run past max only if every such request was refused; regions were checked above
		env.Probe("bump_pointer_past_max")
	}
	if exhausted > 0 {
		env.Probe("exhaustion_reported")
	}
	// text outside the reserve is untouched
	env.Check()
	if msg := env.Image.Check([]simenv.Region{{Addr: hmin, Len: int(hmax - hmin), Kind: simenv.RegionAny, Name: "stub reserve"}}); msg != "" {
		env.Res.At = "after the run"
		env.FailNoUnwind("space/overrun", "%s", msg)
		return
	}
	if p.Knobs["mprot"] != 1 {
		if msg := env.Image.CheckPages(false); msg != "" {
			env.FailNoUnwind("pages/writable", "%s", msg)
			return
		}
	}
	env.Res.Nontriv = res.Stats.Switches > 0 || len(res.Stats.Faults) > 0
	_ = syscall.EACCES
}
