// Package originw is world W-ORIGIN (C03): calling the origin placeholder must behave exactly like
// the un-mocked function. (1) Go zoo functions mocked with an origin-calling callback are called
// on fresh goroutines below a filler recursion whose depth is swept, so that the stack check
// relocated into the trampoline runs with every headroom. (2) A hand-written assembly zoo of
// entry shapes (rel8 branches beyond the copied prefix, rel8 opcodes goom cannot widen, a branch
// back into the first 13 bytes, RIP-relative operands with and without trailing immediates, CALL
// in the prefix) is patched through patch.PtrTrampoline with placeholders linked before and after
// the targets; the relocated code is executed and compared, refusals must leave everything
// unchanged.
package originw

import (
	"bytes"
	"fmt"
	"unsafe"

	"github.com/tencent/goom/internal/patch"
	"github.com/tencent/goom/verifsim/rng"
	"github.com/tencent/goom/verifsim/simcore"
	"github.com/tencent/goom/verifsim/simenv"
	"github.com/tencent/goom/verifsim/world"
	"github.com/tencent/goom/verifsim/worlds/hist"
	"github.com/tencent/goom/verifsim/zoo/asm"
)

// W is the world.
type W struct{}

func init() {
	world.Register(W{})
	world.PropWorld["C03"] = "origin"
	if asm.NumPh() == 0 { // keeps every placeholder linked
		panic("no placeholders")
	}
}

// Name of the world.
func (W) Name() string { return "origin" }

func funcTargets() []int {
	var out []int
	for _, t := range hist.Targets {
		if t.Kind == "func" && !t.NoOrigin && !t.Generic {
			out = append(out, t.Idx)
		}
	}
	return out
}

// Gen builds a plan: a history over 1-3 Go targets (apply with origin, deep calls, gc, cancel,
// re-apply) interleaved with shape operations.
func (W) Gen(prop string, seed uint64, tier string) *world.Plan {
	r := rng.Derive(seed, 0x0816)
	p := &world.Plan{Prop: prop, World: "origin", Seed: seed, Knobs: map[string]int{}}
	p.Sched.GCPermille = []int{0, 20, 100}[r.Intn(3)]
	p.Sched.MaxGC = 4
	ft := funcTargets()
	var ops []world.Op
	if seed%40 == 0 {
		// witness / sweep plan: one target, every filler depth
		t := ft[int(seed/40)%len(ft)]
		ops = append(ops, world.Op{K: "apply", T: t, F: 1, V: r.U64(), W: r.U64()})
		maxD := 260
		if tier == "thorough" {
			maxD = 700
		}
		for d := 1; d <= maxD; d++ {
			ops = append(ops, world.Op{K: "ocall", T: t, N: d, F: d & 3, W: r.U64()})
		}
		p.Knobs["sweep"] = 1
		p.Tasks = []world.Task{{Role: "history", Ops: ops}}
		return p
	}
	nT := 1 + r.Intn(3)
	tg := []int{ft[int(seed%uint64(len(ft)))]}
	for len(tg) < nT {
		c := ft[r.Intn(len(ft))]
		dup := false
		for _, e := range tg {
			dup = dup || e == c
		}
		if !dup {
			tg = append(tg, c)
		}
	}
	mocked := map[int]bool{}
	n := 8 + r.Intn(30)
	for len(ops) < n {
		t := tg[r.Intn(len(tg))]
		switch r.Pick(20, 40, 5, 6, 25, 4) {
		case 0:
			ops = append(ops, world.Op{K: "apply", T: t, F: 1, V: r.U64(), W: r.U64()})
			mocked[t] = true
		case 1:
			if mocked[t] {
				ops = append(ops, world.Op{K: "ocall", T: t, N: 1 + r.Intn(500), F: r.Intn(4), W: r.U64()})
			}
		case 2:
			ops = append(ops, world.Op{K: "gc"})
		case 3:
			if mocked[t] {
				ops = append(ops, world.Op{K: "cancel", T: t, W: r.U64()})
				mocked[t] = false
			}
		case 4:
			f := r.Intn(2)
			if r.Chance(400) {
				f = 2 + r.Intn(len(asm.TightSizes))
			}
			ops = append(ops, world.Op{K: "shape", N: r.Intn(len(asm.Shapes)), F: f, W: uint64(r.Intn(14))})
		case 5:
			ops = append(ops, world.Op{K: "call", T: t, F: r.Intn(3), W: r.U64()})
		}
	}
	p.Tasks = []world.Task{{Role: "history", Ops: ops}}
	return p
}

//go:nocheckptr
func funcAt(code uintptr) func() {
	c := new(uintptr)
	*c = code
	return *(*func())(unsafe.Pointer(&c))
}

// ExtraRegions lets another world (mem) declare text it has modified itself.
var ExtraRegions []simenv.Region

// shapePhUsed: placeholder name -> number of bytes goom may write (0 = the whole symbol extent).
var shapePhUsed = map[string]int{}

// ShapeRegions is shapeRegions for other worlds that share the process.
func ShapeRegions(img *simenv.Image) []simenv.Region { return shapeRegions(img) }

// shapeRegions: placeholder bodies ever written (process-global, like Go placeholders).
func shapeRegions(img *simenv.Image) []simenv.Region {
	var rs []simenv.Region
	for name, n := range shapePhUsed {
		a := img.Lookup(asm.Pkg + name + ".abi0")
		if n == 0 {
			n = int(img.Extent(a))
		}
		rs = append(rs, simenv.Region{Addr: a, Len: n, Kind: simenv.RegionAny, Name: "placeholder " + name})
	}
	return rs
}

//go:norace
//go:nocheckptr
func textBytes(addr uintptr, n int) []byte {
	return append([]byte(nil), unsafe.Slice((*byte)(unsafe.Pointer(addr)), n)...)
}

func catch(f func()) (pv interface{}) {
	defer func() { pv = recover() }()
	f()
	return nil
}

func runShape(s *asm.Shape, in int64) (int64, int64) {
	asm.Input, asm.Result, asm.Aux, asm.Calls = in, -99, 0, 0
	s.Run()
	return asm.Result, asm.Calls
}

// Exec runs the plan.
func (W) Exec(p *world.Plan, env *world.Env) {
	if len(p.Tasks) != 1 {
		env.Res.Verdict = "invalid"
		return
	}
	// the embedded history must be well-formed for the hist interpreter
	var hops []world.Op
	for _, op := range p.Tasks[0].Ops {
		switch op.K {
		case "apply", "cancel", "call", "gc":
			hops = append(hops, op)
		case "ocall", "shape":
		default:
			env.Res.Verdict = "invalid"
			return
		}
	}
	if !hist.WellFormed(&world.Plan{Tasks: []world.Task{{Ops: hops}}}) {
		env.Res.Verdict = "invalid"
		return
	}
	img := env.Image
	x := hist.NewExec(env, p, p.Tasks[0].Ops)
	x.Foreign = func() []simenv.Region { return shapeRegions(img) }
	at := ""
	task := func() {
		for i, op := range p.Tasks[0].Ops {
			simcore.Yield(simcore.SiteOp, uintptr(i))
			switch op.K {
			case "ocall":
				if !x.Mocked(op.T) {
					continue
				}
				x.Deep, x.Fine = op.N, op.F
				x.Step(i, world.Op{K: "call", T: op.T, W: op.W})
				x.Deep = 0
				env.Probe("origin_call_below_filler")
			case "shape":
				at = fmt.Sprintf("op#%d shape %s", i, asm.Shapes[op.N%len(asm.Shapes)].Name)
				DoShape(env, x, op, at)
			default:
				x.Step(i, op)
			}
			env.Op()
		}
		x.Final()
	}
	res := simcore.Run(p.SchedConfig(), []func(){task})
	env.Res.Merge(res)
	if pv := res.Panics[0]; pv != nil {
		if _, ok := pv.(world.Failure); !ok && !env.Failed() {
			env.Res.At = at
			env.FailNoUnwind("crash/panic", "unexpected panic at %s: %v", at, pv)
		}
	}
	env.Res.Nontriv = true
}

// DoShape patches one entry shape through patch.PtrTrampoline with the selected placeholder,
// executes the relocated code and checks every oracle (also used by world mem, x may be nil).
func DoShape(env *world.Env, x *hist.Exec, op world.Op, at string) {
	img := env.Image
	s := asm.Shapes[op.N%len(asm.Shapes)]
	phName := s.PhA
	tight := 0 // > 0: a tight placeholder of that many bytes with a neighbour routine right behind it
	switch {
	case op.F == 1:
		phName = s.PhZ
	case op.F >= 2:
		tight = asm.TightSizes[(op.F-2)%len(asm.TightSizes)]
		phName = fmt.Sprintf("PhTight%d", tight)
	}
	origin := img.Lookup(asm.Pkg + s.Name + ".abi0")
	ph := img.Lookup(asm.Pkg + phName + ".abi0")
	if origin == 0 || ph == 0 {
		env.Res.At = at
		env.Fail("harness/symbol", "shape symbols not found: %s %s", s.Name, phName)
	}
	in := int64(op.W)
	wantRes, wantCalls := runShape(s, in)
	phBefore := textBytes(ph, int(img.Extent(ph)))
	calls := 0
	originFn := funcAt(ph)
	repl := func() {
		calls++
		originFn()
	}
	var g *patch.Guard
	var err error
	pv := catch(func() { g, err = patch.PtrTrampoline(origin, repl, funcAt(ph)) })
	env.Check()
	fail := func(sig, format string, a ...interface{}) {
		env.Res.At = at + " placeholder " + phName
		env.Fail(sig, format, a...)
	}
	regions := func(extra ...simenv.Region) []simenv.Region {
		var rs []simenv.Region
		if x != nil {
			rs = x.Regions()
		}
		rs = append(rs, ExtraRegions...)
		return append(append(rs, shapeRegions(img)...), extra...)
	}
	neighbourOK := func(when string) {
		if tight == 0 {
			return
		}
		asm.Result = -5
		funcAt(ph + uintptr(tight) + 1)()
		if asm.Result != 77 {
			fail("origin/neighbour-clobbered", "%s: the routine directly behind the %d-byte placeholder no longer works (Result=%d, want 77)", when, tight, asm.Result)
		}
	}
	if pv != nil || err != nil || g == nil {
		if tight > 0 {
			env.Probe("tight_placeholder_refused")
		}
		env.Probe("shape_refused_" + s.Name)
		env.T("shape %s refused", s.Name)
		// refusal: function and placeholder unchanged
		if !bytes.Equal(textBytes(ph, len(phBefore)), phBefore) {
			fail("origin/refused-but-placeholder-written", "apply on %s was refused (%v %v) but the placeholder body changed", s.Name, pv, err)
		}
		if msg := img.Check(regions()); msg != "" {
			fail("origin/refused-but-written", "apply on %s was refused (%v %v) but the image changed: %s", s.Name, pv, err, msg)
		}
		if r, c := runShape(s, in); r != wantRes || c != wantCalls {
			fail("origin/refused-but-changed", "after the refused apply %s(%d) = %d, want %d", s.Name, in, r, wantRes)
		}
		neighbourOK("after the refused apply")
		return
	}
	if tight > 0 {
		shapePhUsed[phName] = tight + 1 // the placeholder's own bytes and the INT3 that ends its extent
		env.Probe("tight_placeholder_accepted")
	} else {
		shapePhUsed[phName] = 0
	}
	g.Apply()
	env.Probe("shape_accepted_" + s.Name)
	if msg := img.Check(regions(simenv.Region{Addr: origin, Len: 13, Kind: simenv.RegionJump, Name: s.Name})); msg != "" {
		fail("image/stray", "after patching %s: %s", s.Name, msg)
	}
	// several inputs through the trampoline, so that both sides of every relocated branch run
	for _, v := range []int64{in, 7, 0, 12, 9, -3} {
		asm.Input, asm.Result, asm.Aux, asm.Calls = v, -99, 0, 0
		calls = 0
		// reference for this input from an independent evaluation of the shape's definition
		want, wantC := shapeRef(s.Name, v)
		ppv := catch(func() { s.Run() })
		env.Check()
		if ppv != nil {
			fail("origin/panic", "%s(%d) through the origin placeholder panicked: %v", s.Name, v, ppv)
		}
		if calls != 1 {
			fail("origin/reentry", "%s(%d): the replacement ran %d times for one call", s.Name, v, calls)
		}
		if asm.Result != want || asm.Calls != wantC {
			fail("origin/result", "%s(%d) through the origin placeholder = %d (helper calls %d), the un-mocked function gives %d (%d)", s.Name, v, asm.Result, asm.Calls, want, wantC)
		}
	}
	neighbourOK("with the trampoline installed")
	g.UnpatchWithLock()
	if msg := img.Check(regions()); msg != "" {
		fail("image/not-restored", "after unpatching %s: %s", s.Name, msg)
	}
	if r, c := runShape(s, in); r != wantRes || c != wantCalls {
		fail("origin/not-restored", "after unpatching, %s(%d) = %d, want %d", s.Name, in, r, wantRes)
	}
	env.T("shape %s ok", s.Name)
}

// shapeRef is the definition of every shape in Go (independent of the assembly).
func shapeRef(name string, in int64) (int64, int64) {
	switch name {
	case "ShapeJE":
		if in == 7 {
			return -100, 0
		}
		return in + 1, 0
	case "ShapeJBE":
		if uint64(in) <= 7 {
			return -200 + in, 0
		}
		return in + 2, 0
	case "ShapeJG":
		if in > 7 {
			return -300 + in, 0
		}
		return in + 3, 0
	case "ShapeJMP":
		return (in + 3 - 1000) * 2, 0
	case "ShapeJNE":
		if in != 7 {
			return 400 + in, 0
		}
		return in + 4, 0
	case "ShapeJL":
		if in < 7 {
			return 500 + in, 0
		}
		return in + 5, 0
	case "ShapeBack":
		v := in
		for {
			v++
			if v >= 10 {
				return v, 0
			}
		}
	case "ShapeSkip":
		if in == 0 {
			return -600, 0
		}
		return in + 6, 0
	case "ShapeJLE":
		if in <= 7 {
			return -2000 + in, 0
		}
		return in + 20, 0
	case "ShapeJGE":
		if in >= 7 {
			return -2100 + in, 0
		}
		return in + 21, 0
	case "ShapeJHI":
		if uint64(in) > 7 {
			return -2200 + in, 0
		}
		return in + 22, 0
	case "ShapeJCC":
		if uint64(in) >= 7 {
			return -2300 + in, 0
		}
		return in + 23, 0
	case "ShapeJCS":
		if uint64(in) < 7 {
			return -2400 + in, 0
		}
		return in + 24, 0
	case "ShapeJMI":
		if in-7 < 0 {
			return -2500 + in, 0
		}
		return in + 25, 0
	case "ShapeJPL":
		if in-7 >= 0 {
			return -2600 + in, 0
		}
		return in + 26, 0
	case "ShapeLEA":
		return in + 5, 0
	case "ShapeCMPM":
		if in == 7 {
			return -2, 0
		}
		return 1, 0
	case "ShapeMOVI":
		return in + 0x11, 0
	case "ShapeCALL":
		return in + 2 + 1, 1
	}
	return -1, -1
}
