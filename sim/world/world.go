// Package world defines plans, results and the registry of simulated worlds.
package world

import (
	"encoding/json"
	"fmt"
	"hash/fnv"
	"runtime/debug"
	"sort"

	"github.com/tencent/goom/internal/simhook"
	"github.com/tencent/goom/verifsim/simcore"
	"github.com/tencent/goom/verifsim/simenv"
)

// Op is one generated operation of a task. The meaning of the fields is world specific.
type Op struct {
	K string `json:"k"`
	B int    `json:"b,omitempty"`
	T int    `json:"t,omitempty"`
	F int    `json:"f,omitempty"`
	N int    `json:"n,omitempty"`
	V uint64 `json:"v,omitempty"`
	W uint64 `json:"w,omitempty"`
	S string `json:"s,omitempty"`
	L []int  `json:"l,omitempty"`
}

// Task is one simulated thread of control.
type Task struct {
	Role string `json:"role"`
	Ops  []Op   `json:"ops"`
}

// Sched are the scheduler / environment knobs of a plan.
type Sched struct {
	Permille      int              `json:"permille,omitempty"`
	GCPermille    int              `json:"gc_permille,omitempty"`
	GrowPermille  int              `json:"grow_permille,omitempty"`
	FaultPermille map[string]int   `json:"fault_permille,omitempty"` // by site name
	FaultKinds    map[string][]int `json:"fault_kinds,omitempty"`
	MaxFaults     int              `json:"max_faults,omitempty"`
	MaxGC         int              `json:"max_gc,omitempty"`
	MaxSteps      int              `json:"max_steps,omitempty"`
}

// Plan is one explicit, self-contained simulated run.
type Plan struct {
	Prop          string              `json:"prop"`
	World         string              `json:"world"`
	Seed          uint64              `json:"seed"`
	Sched         Sched               `json:"sched"`
	Knobs         map[string]int      `json:"knobs,omitempty"`
	Tasks         []Task              `json:"tasks"`
	UseDirectives bool                `json:"use_directives,omitempty"`
	Directives    []simcore.Directive `json:"directives,omitempty"`
}

// Result of executing a plan.
type Result struct {
	Prop       string              `json:"prop"`
	World      string              `json:"world"`
	Seed       uint64              `json:"seed"`
	Verdict    string              `json:"verdict"` // ok | violation | truncated | harness
	Sig        string              `json:"sig,omitempty"`
	Msg        string              `json:"msg,omitempty"`
	At         string              `json:"at,omitempty"`
	Stats      simcore.Stats       `json:"stats"`
	Fired      []simcore.Directive `json:"fired,omitempty"`
	Checks     int                 `json:"checks"`          // oracle evaluations
	Ops        int                 `json:"ops"`             // operations executed
	CaseHash   string              `json:"case_hash"`       // canonical hash of (plan ops, switch sequence, fired events)
	Trans      string              `json:"trans,omitempty"` // canonical transcript hash (C19 differential, determinism self-test)
	Nontriv    bool                `json:"nontrivial"`
	Probes     map[string]int      `json:"probes,omitempty"`
	Known      []string            `json:"known,omitempty"` // known-finding ids whose tolerance was used
	Tail       []string            `json:"tail,omitempty"`
	Plan       *Plan               `json:"plan,omitempty"`        // attached when not ok
	BatchFirst uint64              `json:"batch_first,omitempty"` // first seed executed by this process (process history matters)
}

// World is one workload + oracle.
type World interface {
	Name() string
	// Gen builds the plan for (prop, seed). tier is "quick" or "thorough".
	Gen(prop string, seed uint64, tier string) *Plan
	// Exec runs the plan and reports through env.
	Exec(p *Plan, env *Env)
}

var registry = map[string]World{}

// Register adds a world.
func Register(w World) { registry[w.Name()] = w }

// Get returns a world by name.
func Get(name string) World { return registry[name] }

// Names lists the registered worlds.
func Names() []string {
	var out []string
	for k := range registry {
		out = append(out, k)
	}
	sort.Strings(out)
	return out
}

// PropWorld maps a property to the world that decides it.
var PropWorld = map[string]string{}

// Env is what a world sees of the simulator while executing one plan.
type Env struct {
	Plan   *Plan
	Image  *simenv.Image
	Res    *Result
	Known  map[string]bool // open known-finding ids (tolerances enabled)
	Keep   bool            // keep the transcript lines (differential world only; single-task runs)
	Lines  []string
	failed bool
	th     uint64 // running FNV-1a hash of the canonical transcript
	tn     int
	probes [48]probeCell
	known  [8]string
}

type probeCell struct {
	name string
	n    int
}

// Failure is the panic value used to unwind a task after a violation was recorded.
type Failure struct{}

// Fail records the first violation and unwinds the calling task.
func (e *Env) Fail(sig, format string, a ...interface{}) {
	e.FailNoUnwind(sig, format, a...)
	panic(Failure{})
}

// FailAt records the first violation together with its location and unwinds the calling task.
// Tasks of one run may fail "at the same time" (serialised by the simulator): only the first
// failure is kept, and nothing here is visible to the race detector.
//
//go:norace
func (e *Env) FailAt(at, sig, format string, a ...interface{}) {
	if !e.failed {
		e.Res.At = at
	}
	e.FailNoUnwind(sig, format, a...)
	panic(Failure{})
}

// FailNoUnwind records the first violation.
//
//go:norace
func (e *Env) FailNoUnwind(sig, format string, a ...interface{}) {
	if !e.failed {
		e.failed = true
		e.Res.Verdict = "violation"
		e.Res.Sig = sig
		e.Res.Msg = fmt.Sprintf(format, a...)
	}
}

// Failed reports whether a violation has been recorded.
//
//go:norace
func (e *Env) Failed() bool { return e.failed }

// Check counts one oracle evaluation. (norace: tasks are serialised by the simulator and the
// counters are harness state, not goom state.)
//
//go:norace
func (e *Env) Check() { e.Res.Checks++ }

// Op counts one executed operation.
//
//go:norace
func (e *Env) Op() { e.Res.Ops++ }

// Probe bumps a named reach counter. No allocation, no map: tasks of one run call this from
// different goroutines (serialised by the simulator) and the race build must stay silent.
//
//go:norace
func (e *Env) Probe(name string) {
	for i := range e.probes {
		c := &e.probes[i]
		if c.name == name {
			c.n++
			return
		}
		if c.name == "" {
			c.name, c.n = name, 1
			return
		}
	}
}

// UseKnown notes that the tolerance of an open known finding explained a mismatch.
//
//go:norace
func (e *Env) UseKnown(id string) {
	for i := range e.known {
		if e.known[i] == id {
			return
		}
		if e.known[i] == "" {
			e.known[i] = id
			return
		}
	}
}

// T appends a line to the canonical transcript (kept as a running hash).
//
//go:norace
func (e *Env) T(format string, a ...interface{}) {
	s := fmt.Sprintf(format, a...)
	if e.Keep {
		e.Lines = append(e.Lines, s)
	}
	h := e.th
	if e.tn == 0 {
		h = 14695981039346656037
	}
	for i := 0; i < len(s); i++ {
		h ^= uint64(s[i])
		h *= 1099511628211
	}
	h ^= '\n'
	h *= 1099511628211
	e.th = h
	e.tn++
}

// SchedConfig converts the plan's knobs to a scheduler config.
func (p *Plan) SchedConfig() simcore.Config {
	c := simcore.Config{Seed: p.Seed, Permille: p.Sched.Permille, GCPermille: p.Sched.GCPermille,
		GrowPermille: p.Sched.GrowPermille, MaxFaults: p.Sched.MaxFaults, MaxGC: p.Sched.MaxGC, MaxSteps: p.Sched.MaxSteps,
		UseDirectives: p.UseDirectives, Directives: p.Directives}
	if c.MaxSteps == 0 {
		c.MaxSteps = 20000
	}
	if c.MaxGC == 0 {
		c.MaxGC = 6
	}
	if c.MaxFaults == 0 {
		c.MaxFaults = 2
	}
	for name, pm := range p.Sched.FaultPermille {
		for i, n := range simhook.SiteNames {
			if n == name {
				c.FaultPermille[i] = pm
				c.FaultKinds[i] = p.Sched.FaultKinds[name]
			}
		}
	}
	return c
}

// Run executes plan p in world w and returns the result. It recovers harness panics.
func Run(w World, p *Plan, img *simenv.Image, known map[string]bool) (res *Result) {
	return RunWith(w, p, img, known, nil)
}

// RunWith is Run with a callback that receives the result object before execution starts (so
// that an abort handler can complete and emit it).
func RunWith(w World, p *Plan, img *simenv.Image, known map[string]bool, started func(*Result)) (res *Result) {
	res = &Result{Prop: p.Prop, World: p.World, Seed: p.Seed, Verdict: "ok"}
	env := &Env{Plan: p, Image: img, Res: res, Known: known}
	if started != nil {
		started(res)
	}
	defer func() {
		if r := recover(); r != nil {
			if _, ok := r.(Failure); !ok {
				res.Verdict = "harness"
				res.Msg = fmt.Sprintf("harness panic: %v\n%s", r, debug.Stack())
			}
		}
		env.finish()
	}()
	w.Exec(p, env)
	return res
}

func (e *Env) finish() {
	r := e.Res
	for _, c := range e.probes {
		if c.name != "" {
			if r.Probes == nil {
				r.Probes = map[string]int{}
			}
			r.Probes[c.name] += c.n
		}
	}
	for _, k := range e.known {
		if k != "" {
			r.Known = append(r.Known, k)
		}
	}
	for k, v := range r.Stats.Probes {
		if r.Probes == nil {
			r.Probes = map[string]int{}
		}
		r.Probes[k] += v
	}
	h := fnv.New64a()
	b, _ := json.Marshal(e.Plan.Tasks)
	h.Write(b)
	b, _ = json.Marshal(e.Plan.Knobs)
	h.Write(b)
	fmt.Fprintf(h, "|%x|", r.Stats.SwitchHash)
	b, _ = json.Marshal(r.Fired)
	h.Write(b)
	r.CaseHash = fmt.Sprintf("%016x", h.Sum64())
	r.Trans = fmt.Sprintf("%016x/%d", e.th, e.tn)
	if r.Verdict != "ok" {
		r.Plan = e.Plan
		for _, ev := range simcore.TailEvents() {
			r.Tail = append(r.Tail, fmt.Sprintf("#%d t%d %s %s to=%d nth=%d", ev.Seq, ev.Task, simcore.SiteName(int(ev.Site)), simcore.ActName(int(ev.Act)), ev.To, ev.Nth))
		}
		if len(r.Tail) > 40 {
			r.Tail = r.Tail[len(r.Tail)-40:]
		}
	}
}

// Sub runs plan p in world w with a fresh Env that shares this Env's image and known findings and
// keeps its transcript; used by the differential world.
func (e *Env) Sub(w World, p *Plan) (*Result, []string) {
	res := &Result{Prop: p.Prop, World: p.World, Seed: p.Seed, Verdict: "ok"}
	sub := &Env{Plan: p, Image: e.Image, Res: res, Known: e.Known, Keep: true}
	func() {
		defer func() {
			if r := recover(); r != nil {
				if _, ok := r.(Failure); !ok {
					res.Verdict = "harness"
					res.Msg = fmt.Sprintf("harness panic: %v\n%s", r, debug.Stack())
				}
			}
			sub.finish()
		}()
		w.Exec(p, sub)
	}()
	return res, sub.Lines
}

// Abort is installed as simcore.AbortFn by simnode; declared here for worlds that need to end a
// run from inside a task (e.g. after recording a violation while other tasks hold real locks).
var Abort func(res *Result, why string)

// Merge accumulates the statistics of one scheduler run into the plan's result.
func (r *Result) Merge(res *simcore.Result) {
	s, a := &r.Stats, res.Stats
	s.Events += a.Events
	s.Steps += a.Steps
	s.Switches += a.Switches
	s.SwitchHash = s.SwitchHash*0x100000001b3 ^ a.SwitchHash
	s.GC += a.GC
	s.Grow += a.Grow
	if a.Aborted != "" {
		s.Aborted = a.Aborted
	}
	addI := func(dst *map[string]int, src map[string]int) {
		for k, v := range src {
			if *dst == nil {
				*dst = map[string]int{}
			}
			(*dst)[k] += v
		}
	}
	addU := func(dst *map[string]uint64, src map[string]uint64) {
		for k, v := range src {
			if *dst == nil {
				*dst = map[string]uint64{}
			}
			(*dst)[k] += v
		}
	}
	addI(&s.Faults, a.Faults)
	addI(&s.Probes, a.Probes)
	addU(&s.Preempts, a.Preempts)
	addU(&s.Sites, a.Sites)
	r.Fired = append(r.Fired, res.Fired...)
}

// PhaseConfig returns the scheduler config for the n-th scheduler run of the plan.
func (p *Plan) PhaseConfig(n int) simcore.Config {
	c := p.SchedConfig()
	c.Phase = n
	return c
}
