// Package val generates boundary-biased values of arbitrary zoo types from a seed, compares
// values exactly (floats bitwise, pointers by identity on request) and renders them without
// addresses for canonical transcripts.
package val

import (
	"fmt"
	"math"
	"reflect"
	"sort"
	"strings"
	"unsafe"

	"github.com/tencent/goom/verifsim/rng"
	"github.com/tencent/goom/verifsim/zoo/fn"
)

var intBounds = []int64{0, 1, -1, 2, 7, 127, -128, 255, 32767, -32768, 65535, math.MaxInt32, math.MinInt32, math.MaxInt64, math.MinInt64, 42}
var floatBounds = []float64{0, 1, -1, 0.5, math.MaxFloat64, math.SmallestNonzeroFloat64, math.Inf(1), math.Inf(-1), 3.14159, -2.5e10}
var strBounds = []string{"", "a", "goom", "héllo wörld", "0123456789abcdef0123456789abcdef", "x\x00y", "%v %s %d"}

var cells [16]int

// Gen returns a value of type t. simple == true yields the zero-ish canonical value.
func Gen(r *rng.R, t reflect.Type) interface{} {
	return gen(r, t, 0).Interface()
}

// GenV is Gen returning a reflect.Value of exactly type t (interfaces keep static type).
func GenV(r *rng.R, t reflect.Type) reflect.Value { return gen(r, t, 0) }

func gen(r *rng.R, t reflect.Type, depth int) reflect.Value {
	if sv, ok := fn.Special(t, r.U64()); ok {
		return sv
	}
	v := reflect.New(t).Elem()
	switch t.Kind() {
	case reflect.Bool:
		v.SetBool(r.Intn(2) == 1)
	case reflect.Int, reflect.Int8, reflect.Int16, reflect.Int32, reflect.Int64:
		if r.Chance(600) {
			v.SetInt(intBounds[r.Intn(len(intBounds))])
		} else {
			v.SetInt(int64(r.U64()))
		}
	case reflect.Uint, reflect.Uint8, reflect.Uint16, reflect.Uint32, reflect.Uint64, reflect.Uintptr:
		if r.Chance(600) {
			v.SetUint(uint64(intBounds[r.Intn(len(intBounds))]))
		} else {
			v.SetUint(r.U64())
		}
	case reflect.Float32, reflect.Float64:
		switch r.Intn(10) {
		case 0:
			// NaN with payload: must survive bitwise
			if t.Kind() == reflect.Float64 {
				v.SetFloat(math.Float64frombits(0x7ff8000000000000 | r.U64()&0xffff))
			} else {
				v.SetFloat(float64(math.Float32frombits(0x7fc00000 | uint32(r.U64()&0xff))))
			}
		case 1, 2, 3, 4:
			v.SetFloat(floatBounds[r.Intn(len(floatBounds))])
		default:
			v.SetFloat(float64(int64(r.U64()%2000001)-1000000) / 16)
		}
	case reflect.Complex64, reflect.Complex128:
		v.SetComplex(complex(float64(r.Intn(100)), float64(r.Intn(100))-50))
	case reflect.String:
		if r.Chance(600) {
			v.SetString(strBounds[r.Intn(len(strBounds))])
		} else {
			v.SetString(fmt.Sprintf("s%x", r.U64()%0xffffff))
		}
	case reflect.Slice:
		switch r.Intn(5) {
		case 0: // nil
		case 1:
			v.Set(reflect.MakeSlice(t, 0, 0))
		default:
			n := 1 + r.Intn(4)
			s := reflect.MakeSlice(t, n, n+r.Intn(2))
			for i := 0; i < n; i++ {
				s.Index(i).Set(gen(r, t.Elem(), depth+1))
			}
			v.Set(s)
		}
	case reflect.Array:
		for i := 0; i < t.Len(); i++ {
			v.Index(i).Set(gen(r, t.Elem(), depth+1))
		}
	case reflect.Struct:
		for i := 0; i < t.NumField(); i++ {
			if t.Field(i).PkgPath == "" {
				v.Field(i).Set(gen(r, t.Field(i).Type, depth+1))
			}
		}
	case reflect.Ptr:
		if r.Intn(4) != 0 {
			p := reflect.New(t.Elem())
			p.Elem().Set(gen(r, t.Elem(), depth+1))
			v.Set(p)
		}
	case reflect.Interface:
		if t.NumMethod() > 0 {
			if t.Implements(errType) || errType.Implements(t) {
				switch r.Intn(6) {
				case 0: // nil interface
				case 1: // typed nil whose Error() would dereference nil
					v.Set(reflect.ValueOf((*fn.PtrErr)(nil)))
				case 2:
					v.Set(reflect.ValueOf(&fn.PtrErr{Msg: "ptr error"}))
				default:
					v.Set(reflect.ValueOf(fn.ErrTable(r.Intn(8))))
				}
			}
		} else if depth < 2 {
			switch r.Intn(7) {
			case 0: // nil
			case 1:
				v.Set(reflect.ValueOf(int(intBounds[r.Intn(len(intBounds))])))
			case 2:
				v.Set(reflect.ValueOf(strBounds[r.Intn(len(strBounds))]))
			case 3:
				v.Set(reflect.ValueOf(fn.S2{A: r.Intn(5), B: r.Intn(5)}))
			case 4:
				v.Set(reflect.ValueOf(&fn.S3{A: r.Intn(5), B: 1.5, C: "p"}))
			case 5:
				v.Set(reflect.ValueOf((*fn.S3)(nil))) // typed nil
			case 6:
				v.Set(reflect.ValueOf(float64(r.Intn(9)) / 2))
			}
			if r.Chance(120) {
				// self-referential and unexported-field structures behind an interface
				if r.Intn(2) == 0 {
					v.Set(reflect.ValueOf(fn.NewRing(r.U64())))
				} else {
					v.Set(reflect.ValueOf(fn.NewPriv(r.U64())))
				}
			}
		}
	case reflect.Map:
		if r.Intn(4) != 0 {
			m := reflect.MakeMap(t)
			for i, n := 0, r.Intn(4); i < n; i++ {
				m.SetMapIndex(gen(r, t.Key(), depth+1), gen(r, t.Elem(), depth+1))
			}
			v.Set(m)
		}
	case reflect.Func:
		if r.Intn(3) != 0 && t == reflect.TypeOf(fn.FuncTable(0)) {
			v.Set(reflect.ValueOf(fn.FuncTable(r.Intn(8))))
		}
	case reflect.Chan:
		if r.Intn(2) == 0 {
			v.Set(reflect.MakeChan(t, 1))
		}
	case reflect.UnsafePointer:
		if r.Intn(3) != 0 {
			v.SetPointer(unsafe.Pointer(&cells[r.Intn(len(cells))]))
		}
	}
	return v
}

var errType = reflect.TypeOf((*error)(nil)).Elem()

// GenArgs returns one value per parameter of function type ft (the variadic tail as a slice).
func GenArgs(r *rng.R, ft reflect.Type) []interface{} {
	out := make([]interface{}, ft.NumIn())
	for i := range out {
		out[i] = Gen(r, ft.In(i))
	}
	return out
}

// GenResults returns one value per result of function type ft.
func GenResults(r *rng.R, ft reflect.Type) []interface{} {
	out := make([]interface{}, ft.NumOut())
	for i := range out {
		out[i] = Gen(r, ft.Out(i))
	}
	return out
}

// Same compares two values exactly: floats bitwise, strings by content, pointers / maps / chans /
// funcs / slices' backing arrays by identity when identity is true and by content otherwise.
func Same(a, b interface{}, identity bool) bool {
	if a == nil || b == nil {
		return a == nil && b == nil
	}
	return same(reflect.ValueOf(a), reflect.ValueOf(b), identity, 0)
}

// SameList applies Same element-wise.
func SameList(a, b []interface{}, identity bool) bool {
	if len(a) != len(b) {
		return false
	}
	for i := range a {
		if !Same(a[i], b[i], identity) {
			return false
		}
	}
	return true
}

func same(a, b reflect.Value, id bool, depth int) bool {
	if a.IsValid() != b.IsValid() {
		return false
	}
	if !a.IsValid() {
		return true
	}
	if a.Type() != b.Type() {
		return false
	}
	if depth > 20 {
		return true
	}
	switch a.Kind() {
	case reflect.Bool:
		return a.Bool() == b.Bool()
	case reflect.Int, reflect.Int8, reflect.Int16, reflect.Int32, reflect.Int64:
		return a.Int() == b.Int()
	case reflect.Uint, reflect.Uint8, reflect.Uint16, reflect.Uint32, reflect.Uint64, reflect.Uintptr:
		return a.Uint() == b.Uint()
	case reflect.Float32:
		return math.Float32bits(float32(a.Float())) == math.Float32bits(float32(b.Float()))
	case reflect.Float64:
		return math.Float64bits(a.Float()) == math.Float64bits(b.Float())
	case reflect.Complex64, reflect.Complex128:
		x, y := a.Complex(), b.Complex()
		return math.Float64bits(real(x)) == math.Float64bits(real(y)) && math.Float64bits(imag(x)) == math.Float64bits(imag(y))
	case reflect.String:
		return a.String() == b.String()
	case reflect.Slice:
		if a.IsNil() != b.IsNil() || a.Len() != b.Len() {
			return false
		}
		if id && a.Len() > 0 && a.Pointer() != b.Pointer() {
			return false
		}
		for i := 0; i < a.Len(); i++ {
			if !same(a.Index(i), b.Index(i), id, depth+1) {
				return false
			}
		}
		return true
	case reflect.Array:
		for i := 0; i < a.Len(); i++ {
			if !same(a.Index(i), b.Index(i), id, depth+1) {
				return false
			}
		}
		return true
	case reflect.Struct:
		for i := 0; i < a.NumField(); i++ {
			if !same(a.Field(i), b.Field(i), id, depth+1) {
				return false
			}
		}
		return true
	case reflect.Ptr:
		if a.IsNil() || b.IsNil() {
			return a.IsNil() == b.IsNil()
		}
		if id {
			return a.Pointer() == b.Pointer()
		}
		return same(a.Elem(), b.Elem(), id, depth+1)
	case reflect.Interface:
		if a.IsNil() || b.IsNil() {
			return a.IsNil() == b.IsNil()
		}
		return same(a.Elem(), b.Elem(), id, depth+1)
	case reflect.Map:
		if a.IsNil() != b.IsNil() || a.Len() != b.Len() {
			return false
		}
		if id {
			return a.Pointer() == b.Pointer()
		}
		it := a.MapRange()
		for it.Next() {
			bv := b.MapIndex(it.Key())
			if !bv.IsValid() || !same(it.Value(), bv, id, depth+1) {
				return false
			}
		}
		return true
	case reflect.Func, reflect.Chan:
		if a.IsNil() || b.IsNil() {
			return a.IsNil() == b.IsNil()
		}
		return a.Pointer() == b.Pointer()
	case reflect.UnsafePointer:
		return a.Pointer() == b.Pointer()
	}
	return false
}

// Show renders a value without addresses.
func Show(x interface{}) string {
	if x == nil {
		return "nil"
	}
	var sb strings.Builder
	show(&sb, reflect.ValueOf(x), 0)
	return sb.String()
}

// ShowList renders a list of values.
func ShowList(xs []interface{}) string {
	parts := make([]string, len(xs))
	for i, x := range xs {
		parts[i] = Show(x)
	}
	return "[" + strings.Join(parts, ", ") + "]"
}

func show(sb *strings.Builder, v reflect.Value, depth int) {
	if !v.IsValid() {
		sb.WriteString("nil")
		return
	}
	if depth > 6 {
		sb.WriteString("…")
		return
	}
	switch v.Kind() {
	case reflect.Float32:
		fmt.Fprintf(sb, "f32:%08x", math.Float32bits(float32(v.Float())))
	case reflect.Float64:
		fmt.Fprintf(sb, "f64:%016x", math.Float64bits(v.Float()))
	case reflect.String:
		fmt.Fprintf(sb, "%q", v.String())
	case reflect.Slice:
		if v.IsNil() {
			sb.WriteString("nil" + v.Type().String())
			return
		}
		fallthrough
	case reflect.Array:
		if v.Type().Elem().Kind() == reflect.Uint8 {
			fmt.Fprintf(sb, "%s{%x}", v.Type(), bytesOf(v))
			return
		}
		sb.WriteString(v.Type().String() + "{")
		for i := 0; i < v.Len(); i++ {
			if i > 0 {
				sb.WriteString(",")
			}
			show(sb, v.Index(i), depth+1)
		}
		sb.WriteString("}")
	case reflect.Struct:
		sb.WriteString(v.Type().Name() + "{")
		for i := 0; i < v.NumField(); i++ {
			if i > 0 {
				sb.WriteString(",")
			}
			show(sb, v.Field(i), depth+1)
		}
		sb.WriteString("}")
	case reflect.Ptr:
		if v.IsNil() {
			sb.WriteString("nil" + v.Type().String())
			return
		}
		sb.WriteString("&")
		show(sb, v.Elem(), depth+1)
	case reflect.Interface:
		if v.IsNil() {
			sb.WriteString("nil")
			return
		}
		sb.WriteString("<" + v.Elem().Type().String() + ">")
		show(sb, v.Elem(), depth+1)
	case reflect.Map:
		if v.IsNil() {
			sb.WriteString("nilmap")
			return
		}
		var items []string
		it := v.MapRange()
		for it.Next() {
			var e strings.Builder
			show(&e, it.Key(), depth+1)
			e.WriteString(":")
			show(&e, it.Value(), depth+1)
			items = append(items, e.String())
		}
		sort.Strings(items)
		sb.WriteString("map{" + strings.Join(items, ",") + "}")
	case reflect.Func:
		if v.IsNil() {
			sb.WriteString("nilfunc")
		} else {
			sb.WriteString("func")
		}
	case reflect.Chan:
		if v.IsNil() {
			sb.WriteString("nilchan")
		} else {
			sb.WriteString("chan")
		}
	case reflect.UnsafePointer:
		if v.Pointer() == 0 {
			sb.WriteString("nilptr")
		} else {
			sb.WriteString("ptr")
		}
	case reflect.Bool:
		fmt.Fprintf(sb, "%v", v.Bool())
	case reflect.Int, reflect.Int8, reflect.Int16, reflect.Int32, reflect.Int64:
		fmt.Fprintf(sb, "%d", v.Int())
	case reflect.Uint, reflect.Uint8, reflect.Uint16, reflect.Uint32, reflect.Uint64, reflect.Uintptr:
		fmt.Fprintf(sb, "%d", v.Uint())
	case reflect.Complex64, reflect.Complex128:
		fmt.Fprintf(sb, "%v", v.Complex())
	default:
		if v.CanInterface() {
			fmt.Fprintf(sb, "%v", v.Interface())
		} else {
			sb.WriteString("?" + v.Kind().String())
		}
	}
}

func bytesOf(v reflect.Value) []byte {
	b := make([]byte, v.Len())
	for i := range b {
		b[i] = byte(v.Index(i).Uint())
	}
	return b
}
