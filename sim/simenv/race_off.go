//go:build !race

package simenv

// RaceBuild reports whether the binary was built with the race detector.
const RaceBuild = false
