// Package simenv holds the parts of the simulated environment that are not scheduling: the text
// image and page-protection oracles, GC events with heap churn, and small utilities.
package simenv

import (
	"bufio"
	"bytes"
	"debug/elf"
	"fmt"
	"os"
	"reflect"
	"runtime"
	"sort"
	"strconv"
	"strings"
	"syscall"
	"unsafe"
)

// Image is a pristine copy of the process's .text section.
type Image struct {
	Slide      uintptr // run address - link address (non-zero for position-independent builds)
	HasSymtab  bool
	Start, End uintptr
	Pristine   []byte
	symAddr    []uintptr // sorted entries of FUNC symbols from .symtab
	symSize    map[uintptr]uintptr
	symName    map[uintptr]string
	byName     map[string]uintptr
}

// Region is a range of text bytes that is allowed to differ from the pristine image.
type Region struct {
	Addr uintptr
	Len  int
	Kind int // RegionJump: must hold a complete goom entry jump; RegionAny: anything
	Name string
}

// Region kinds.
const (
	RegionAny = iota
	RegionJump
)

//go:nocheckptr
func raw(addr uintptr, n int) []byte {
	return unsafe.Slice((*byte)(unsafe.Pointer(addr)), n)
}

// Snapshot reads the ELF headers of the running executable and copies .text.
func Snapshot() (*Image, error) {
	f, err := elf.Open("/proc/self/exe")
	if err != nil {
		return nil, err
	}
	defer f.Close()
	sec := f.Section(".text")
	if sec == nil {
		return nil, fmt.Errorf("no .text")
	}
	// non-PIE: link address == run address; verify with a known function
	slide := uintptr(0)
	syms, _ := f.Symbols()
	img := &Image{symSize: map[uintptr]uintptr{}, symName: map[uintptr]string{}}
	self := reflect.ValueOf(Snapshot).Pointer()
	for _, s := range syms {
		if s.Name == "github.com/tencent/goom/verifsim/simenv.Snapshot" {
			slide = self - uintptr(s.Value)
		}
	}
	for _, s := range syms {
		if elf.ST_TYPE(s.Info) == elf.STT_FUNC && s.Value >= sec.Addr && s.Value < sec.Addr+sec.Size {
			a := uintptr(s.Value) + slide
			img.symAddr = append(img.symAddr, a)
			img.symSize[a] = uintptr(s.Size)
			img.symName[a] = s.Name
		}
	}
	sort.Slice(img.symAddr, func(i, j int) bool { return img.symAddr[i] < img.symAddr[j] })
	img.Slide = slide
	img.HasSymtab = len(syms) > 0
	if !img.HasSymtab && sec.Addr < 0x100000 {
		return nil, fmt.Errorf("stripped position-independent binary: cannot locate .text")
	}
	img.Start = uintptr(sec.Addr) + slide
	img.End = img.Start + uintptr(sec.Size)
	img.Pristine = append([]byte(nil), raw(img.Start, int(sec.Size))...)
	return img, nil
}

var (
	shared    *Image
	sharedErr error
)

// Shared returns the process-wide image, snapshotting at the first call (simnode calls it at
// start-up, before goom writes anything).
func Shared() (*Image, error) {
	if shared == nil && sharedErr == nil {
		shared, sharedErr = Snapshot()
	}
	return shared, sharedErr
}

// SymAt returns the ELF symbol containing addr (name, entry, size).
func (im *Image) SymAt(addr uintptr) (string, uintptr, uintptr) {
	i := sort.Search(len(im.symAddr), func(i int) bool { return im.symAddr[i] > addr }) - 1
	if i < 0 {
		return "?", 0, 0
	}
	e := im.symAddr[i]
	return im.symName[e], e, im.symSize[e]
}

// Lookup returns the entry of the FUNC symbol with the given name (0 if absent).
func (im *Image) Lookup(name string) uintptr {
	if im.byName == nil {
		im.byName = make(map[string]uintptr, len(im.symName))
		for a, n := range im.symName {
			im.byName[n] = a
		}
	}
	return im.byName[name]
}

// SymSize returns the ELF symbol size of the function starting at entry (0 if unknown).
func (im *Image) SymSize(entry uintptr) uintptr { return im.symSize[entry] }

// Extent returns the distance from entry to the next symbol (code plus padding).
func (im *Image) Extent(entry uintptr) uintptr {
	i := sort.Search(len(im.symAddr), func(i int) bool { return im.symAddr[i] > entry })
	if i >= len(im.symAddr) {
		return im.End - entry
	}
	return im.symAddr[i] - entry
}

// Funcs returns all FUNC symbol entries in address order.
func (im *Image) Funcs() []uintptr { return im.symAddr }

// Name returns the symbol name at entry.
func (im *Image) Name(entry uintptr) string { return im.symName[entry] }

// Diff is one maximal run of differing bytes.
type Diff struct {
	Addr uintptr
	Len  int
}

// Diffs returns the runs of bytes that differ from the pristine image.
// (norace: the oracle reads text that other simulated tasks write under goom's locks.)
//
//go:norace
func (im *Image) Diffs() []Diff {
	live := raw(im.Start, len(im.Pristine))
	if bytes.Equal(live, im.Pristine) {
		return nil
	}
	var out []Diff
	const blk = 4096
	for off := 0; off < len(live); off += blk {
		end := off + blk
		if end > len(live) {
			end = len(live)
		}
		if bytes.Equal(live[off:end], im.Pristine[off:end]) {
			continue
		}
		for i := off; i < end; i++ {
			if live[i] != im.Pristine[i] {
				j := i
				for j < len(live) && live[j] != im.Pristine[j] {
					j++
				}
				// merge with previous when adjacent
				if n := len(out); n > 0 && out[n-1].Addr+uintptr(out[n-1].Len) == im.Start+uintptr(i) {
					out[n-1].Len += j - i
				} else {
					out = append(out, Diff{im.Start + uintptr(i), j - i})
				}
				i = j
			}
		}
	}
	return out
}

// reserveSym is goom's built-in stub reserve: an assembly routine inside .text that goom uses as
// scratch space for interface-method stubs when anonymous executable mappings are unavailable. What
// it holds is goom's business (world space checks what is handed out of it); a stub written there
// by an earlier plan of the same process stays there.
const reserveSym = "github.com/tencent/goom/internal/bytecode/stub.Placeholder.abi0"

//go:norace
func (im *Image) reserve() (uintptr, uintptr) {
	if s := im.Lookup(reserveSym); s != 0 {
		return s, s + im.Extent(s)
	}
	return 0, 0
}

// Check verifies that every differing byte lies inside an allowed region and that every
// RegionJump region that differs at all holds a complete goom entry jump whose operand points at
// a function value with a code pointer inside the text section. It returns "" or a description
// of the first violation.
//
//go:norace
func (im *Image) Check(allowed []Region) string {
	diffs := im.Diffs()
	rlo, rhi := im.reserve()
	for _, d := range diffs {
		ok := d.Addr >= rlo && d.Addr+uintptr(d.Len) <= rhi
		for _, r := range allowed {
			if ok {
				break
			}
			if d.Addr >= r.Addr && d.Addr+uintptr(d.Len) <= r.Addr+uintptr(r.Len) {
				ok = true
				break
			}
		}
		if !ok {
			name, e, _ := im.SymAt(d.Addr)
			return fmt.Sprintf("stray text bytes: %d byte(s) at %s+%d differ from the pristine image (pristine %x live %x)",
				d.Len, name, d.Addr-e, im.Pristine[d.Addr-im.Start:d.Addr-im.Start+uintptr(minInt(d.Len, 16))], raw(d.Addr, minInt(d.Len, 16)))
		}
	}
	for _, r := range allowed {
		if r.Kind != RegionJump {
			continue
		}
		live := raw(r.Addr, r.Len)
		pr := im.Pristine[r.Addr-im.Start : r.Addr-im.Start+uintptr(r.Len)]
		if bytes.Equal(live, pr) {
			continue // restored / never written: fine for the image oracle, behaviour oracle decides
		}
		if msg := im.CheckJump(r.Addr); msg != "" {
			return fmt.Sprintf("%s: %s", r.Name, msg)
		}
	}
	return ""
}

// CheckJump checks that the 13 bytes at addr are `nop; movabs rdx, imm64; jmp [rdx]` and that
// imm64 points to readable memory whose first word is a text address.
//
//go:nocheckptr
//go:norace
func (im *Image) CheckJump(addr uintptr) string {
	b := raw(addr, 13)
	if b[0] != 0x90 || b[1] != 0x48 || b[2] != 0xBA || b[11] != 0xFF || b[12] != 0x22 {
		return fmt.Sprintf("entry holds a partial or malformed jump: %x", b)
	}
	var imm uintptr
	for i := 0; i < 8; i++ {
		imm |= uintptr(b[3+i]) << (8 * i)
	}
	if imm == 0 || imm%8 != 0 {
		return fmt.Sprintf("jump operand %#x is not a function value address", imm)
	}
	code := *(*uintptr)(unsafe.Pointer(imm))
	if code < im.Start || code >= im.End {
		return fmt.Sprintf("jump operand %#x does not hold a code pointer into text (%#x)", imm, code)
	}
	return ""
}

// Equal reports whether the live text equals the pristine image.
//
//go:norace
func (im *Image) Equal() bool {
	return bytes.Equal(raw(im.Start, len(im.Pristine)), im.Pristine)
}

func minInt(a, b int) int {
	if a < b {
		return a
	}
	return b
}

// VMA is one line of /proc/self/maps.
type VMA struct {
	Start, End uintptr
	Perms      string
}

// Maps reads /proc/self/maps.
func Maps() ([]VMA, error) {
	f, err := os.Open("/proc/self/maps")
	if err != nil {
		return nil, err
	}
	defer f.Close()
	var out []VMA
	sc := bufio.NewScanner(f)
	for sc.Scan() {
		fs := strings.Fields(sc.Text())
		if len(fs) < 2 {
			continue
		}
		se := strings.SplitN(fs[0], "-", 2)
		s, _ := strconv.ParseUint(se[0], 16, 64)
		e, _ := strconv.ParseUint(se[1], 16, 64)
		out = append(out, VMA{uintptr(s), uintptr(e), fs[1]})
	}
	return out, sc.Err()
}

// CheckPages verifies the kernel's view of the text pages: with mid == false every page must be
// r-x (not writable); with mid == true every page must at least be executable and readable.
func (im *Image) CheckPages(mid bool) string {
	vmas, err := Maps()
	if err != nil {
		return ""
	}
	for _, v := range vmas {
		if v.End <= im.Start || v.Start >= im.End {
			continue
		}
		if len(v.Perms) < 3 {
			continue
		}
		if v.Perms[2] != 'x' || v.Perms[0] != 'r' {
			return fmt.Sprintf("text pages %#x-%#x are mapped %s (not readable+executable)", v.Start, v.End, v.Perms)
		}
		if !mid && v.Perms[1] == 'w' {
			return fmt.Sprintf("text pages %#x-%#x are left writable (%s)", v.Start, v.End, v.Perms)
		}
	}
	return ""
}

// PermsAt returns the permission string of the mapping containing addr.
func PermsAt(addr uintptr) string {
	vmas, _ := Maps()
	for _, v := range vmas {
		if addr >= v.Start && addr < v.End {
			return v.Perms
		}
	}
	return ""
}

var churnKeep [][]byte

// GC is the simulator's GC event: two full collections with heap churn in between, so that an
// object freed by the first one is reused (or, with GODEBUG=clobberfree=1, overwritten).
// norace: it runs on whichever task the scheduler picked and touches harness state only.
//
//go:norace
func GC() {
	runtime.GC()
	churnKeep = churnKeep[:0]
	for _, sz := range []int{8, 16, 24, 32, 48, 64, 80, 96, 112, 128, 192, 256, 512} {
		for i := 0; i < 200; i++ {
			b := make([]byte, sz)
			for j := range b {
				b[j] = 0xAB
			}
			churnKeep = append(churnKeep, b)
		}
	}
	runtime.GC()
}

// RestoreRX puts the given text pages back to read+execute (used by worlds after a fault
// configuration, where an injected mprotect failure may legitimately leave a page RWX).
//
//go:nocheckptr
func RestoreRX(pages []uintptr) {
	for _, p := range pages {
		syscall.Mprotect(unsafe.Slice((*byte)(unsafe.Pointer(p)), 4096), syscall.PROT_READ|syscall.PROT_EXEC)
	}
}
