// Package simcore is the deterministic scheduler of the goom simulator.
//
// Tasks are real goroutines; exactly one of them holds the baton and runs, every other one is
// parked in a futex wait on its own word. All scheduler state is touched only inside
// //go:norace functions with plain loads and stores, so the Go race detector sees no
// happens-before edge between tasks other than the ones goom's own synchronisation creates:
// execution is strictly serialised (hence repeatable) and goom's data races are still reported.
package simcore

import (
	"runtime"
	"sync"
	"syscall"
	"unsafe"

	"github.com/tencent/goom/internal/simhook"
)

// MaxTasks bounds the number of tasks of one run.
const MaxTasks = 8

// Harness-level sites continue after goom's.
const (
	SiteOp    = simhook.NumSites + iota // before every operation of a task
	SiteCall                            // between two calls of a caller task
	SiteUser                            // world specific
	SiteOpEnd                           // after an operation
	NumSites
)

// SiteName returns a printable site name.
func SiteName(s int) string {
	if s < simhook.NumSites {
		return simhook.SiteNames[s]
	}
	switch s {
	case SiteOp:
		return "op"
	case SiteCall:
		return "call"
	case SiteUser:
		return "user"
	case SiteOpEnd:
		return "opend"
	}
	return "?"
}

// Action kinds of a directive.
const (
	ActContinue = iota
	ActSwitch
	ActGC
	ActGrow
	ActFault
)

// ActName returns a printable action name.
func ActName(a int) string {
	return [...]string{"continue", "switch", "gc", "grow", "fault"}[a]
}

// Fault kinds.
const (
	FaultNone   = iota
	FaultEACCES // mprotect/mmap: permission denied
	FaultENOMEM // mprotect/mmap: out of memory
	FaultEIO    // read: I/O error
	FaultShort  // read: early EOF (truncated file)
	FaultZero   // read: zero-filled data (stripped section)
	NumFaultKind
)

// FaultName returns a printable fault name.
func FaultName(k int) string {
	return [...]string{"none", "EACCES", "ENOMEM", "EIO", "short", "zero"}[k]
}

// Directive is one scheduling / fault decision, identified by where it fired.
type Directive struct {
	Task int    `json:"t"`
	Site int    `json:"s"`
	Key  uint64 `json:"k"`
	Nth  int    `json:"n"`
	Act  int    `json:"a"`
	To   int    `json:"to,omitempty"` // ActSwitch: task; ActFault: fault kind; ActGrow: depth
	P    int    `json:"p,omitempty"`  // phase: index of the scheduler run inside one plan
}

// Config of one run.
type Config struct {
	Seed          uint64
	Phase         int                   // index of this scheduler run inside one plan (part of every directive)
	Permille      int                   // probability of a task switch at a yield (‰)
	GCPermille    int                   // probability of a GC event at a yield (‰)
	GrowPermille  int                   // probability of a stack-growth event at a yield (‰)
	FaultPermille [simhook.NumSites]int // per fault site probability (‰)
	FaultKinds    [simhook.NumSites][]int
	MaxFaults     int
	MaxGC         int
	MaxSteps      int
	Directives    []Directive // non-nil: directive mode (replay), nothing else fires
	UseDirectives bool
}

// Event is one logged scheduler event.
type Event struct {
	Seq  uint64
	Task int8
	Site int16
	Act  int8
	To   int16
	Key  uint64
	Nth  int32
}

const (
	stUnborn = iota
	stRunnable
	stBlocked
	stDone
)

const (
	maxFired = 8192
	ringSize = 256
	nthSlots = 1 << 12
	maxPages = 64
)

type nthEntry struct {
	used bool
	task int8
	site int16
	key  uint64
	n    int32
}

// all scheduler state: plain globals, norace access only
var (
	active     bool
	aborted    bool
	cfg        Config
	nTasks     int
	cur        int32
	wake       [MaxTasks + 1]int32 // index MaxTasks: the driver
	state      [MaxTasks]uint8
	waitLock   [MaxTasks]int8
	holder     [simhook.NumLocks]int8
	nthTab     [nthSlots]nthEntry
	evseq      uint64
	steps      int
	fired      [maxFired]Directive
	nFired     int
	ring       [ringSize]Event
	nEvents    uint64
	siteCnt    [NumSites]uint64
	preempts   [NumSites]uint64
	gcCount    int
	growCount  int
	faultCount [NumFaultKind]int
	nFaults    int
	abortWhy   string
	switches   uint64 // hash of the context-switch sequence
	nSwitch    int
	// probes
	ProbeGCWhileLockHeld int
	ProbeLockQueue       int
	ProbeCallerOnRWX     int
	pageProt             [maxPages]struct {
		page uintptr
		prot uintptr
	}
	nPageProt int
	anyRWX    int // number of pages currently RWX according to the mprotect seam
	// AbortFn is called (on the aborting task's goroutine) when the run cannot continue
	AbortFn func(why string)
	// GCFn performs a GC event; set by simenv
	GCFn func()
)

var joinWG sync.WaitGroup

func init() {
	simhook.YieldFn = Yield
	simhook.AcquireFn = Acquire
	simhook.ReleaseFn = Release
	simhook.FaultFn = Fault
	simhook.WrapReaderAtFn = wrapReaderAt
}

//go:norace
func mix(a, b uint64) uint64 {
	x := a ^ (b + 0x9e3779b97f4a7c15 + (a << 6) + (a >> 2))
	x ^= x >> 30
	x *= 0xbf58476d1ce4e5b9
	x ^= x >> 27
	x *= 0x94d049bb133111eb
	x ^= x >> 31
	return x
}

// NormKey maps a text address to a value that is stable across builds of the same source:
// hash(function name) + offset into the function. Non-text keys are returned unchanged when
// small and dropped (0) otherwise.
//
//go:norace
func NormKey(key uintptr) uint64 {
	if key < 1<<20 {
		return uint64(key)
	}
	f := runtime.FuncForPC(key)
	if f == nil {
		return 0
	}
	name := f.Name()
	h := uint64(1469598103934665603)
	for i := 0; i < len(name); i++ {
		h ^= uint64(name[i])
		h *= 1099511628211
	}
	return (h &^ 0xfff) + uint64(key-f.Entry())&0xfff
}

//go:norace
func nextNth(task int, site int, key uint64) int {
	h := mix(mix(uint64(task)+1, uint64(site)), key)
	for i := 0; i < nthSlots; i++ {
		e := &nthTab[(h+uint64(i))&(nthSlots-1)]
		if !e.used {
			e.used = true
			e.task, e.site, e.key, e.n = int8(task), int16(site), key, 1
			return 0
		}
		if e.task == int8(task) && e.site == int16(site) && e.key == key {
			e.n++
			return int(e.n - 1)
		}
	}
	return 1 << 30 // table full: no decision will match
}

//go:norace
func logEvent(task, site, act, to int, key uint64, nth int) {
	ring[nEvents%ringSize] = Event{Seq: evseq, Task: int8(task), Site: int16(site), Act: int8(act), To: int16(to), Key: key, Nth: int32(nth)}
	nEvents++
	evseq++
}

//go:norace
func record(d Directive) {
	d.P = cfg.Phase
	if nFired < maxFired {
		fired[nFired] = d
		nFired++
	}
}

//go:norace
func futexWait(addr *int32, val int32) {
	ts := syscall.Timespec{Sec: 1}
	syscall.Syscall6(syscall.SYS_FUTEX, uintptr(unsafe.Pointer(addr)), 128 /*FUTEX_WAIT|PRIVATE*/, uintptr(val),
		uintptr(unsafe.Pointer(&ts)), 0, 0)
}

//go:norace
func futexWake(addr *int32) {
	syscall.Syscall6(syscall.SYS_FUTEX, uintptr(unsafe.Pointer(addr)), 129 /*FUTEX_WAKE|PRIVATE*/, 1, 0, 0, 0)
}

//go:norace
func load32(p *int32) int32 {
	// plain load; the futex syscall in the loop is a compiler barrier
	return *(*int32)(unsafe.Pointer(p))
}

// park blocks the calling goroutine until wake[slot] becomes 1, then clears it.
//
//go:norace
func park(slot int) {
	for load32(&wake[slot]) == 0 {
		futexWait(&wake[slot], 0)
	}
	wake[slot] = 0
}

//go:norace
func unpark(slot int) {
	wake[slot] = 1
	futexWake(&wake[slot])
}

// pass hands the baton from the running task to task `to` and parks the caller.
//
//go:norace
func pass(from, to int) {
	if from == to {
		return
	}
	switches = mix(switches, uint64(from)<<8|uint64(to))
	nSwitch++
	cur = int32(to)
	unpark(to)
	park(from)
}

//go:norace
func pickRunnable(h uint64, except int) int {
	var cand [MaxTasks]int
	n := 0
	for i := 0; i < nTasks; i++ {
		if i != except && state[i] == stRunnable {
			cand[n] = i
			n++
		}
	}
	if n == 0 {
		return -1
	}
	return cand[h%uint64(n)]
}

//go:norace
func abort(why string) {
	if aborted {
		return
	}
	aborted = true
	abortWhy = why
	if AbortFn != nil {
		AbortFn(why)
	}
	// AbortFn normally exits the process; if it returns, stop scheduling.
	active = false
}

//go:norace
func lookupDirective(task, site int, key uint64, nth int, wantFault bool) (Directive, bool) {
	for i := range cfg.Directives {
		d := &cfg.Directives[i]
		if d.P == cfg.Phase && d.Task == task && d.Site == site && d.Key == key && d.Nth == nth && (d.Act == ActFault) == wantFault {
			return *d, true
		}
	}
	return Directive{}, false
}

// Yield is a scheduling point.
//
//go:norace
func Yield(site int, key uintptr) {
	if !active {
		return
	}
	t := int(cur)
	k := NormKey(key)
	n := nextNth(t, site, k)
	siteCnt[site]++
	steps++
	if cfg.MaxSteps > 0 && steps > cfg.MaxSteps {
		abort("truncated")
		return
	}
	if site == simhook.SiteMemWriteRWX || site == simhook.SiteMemWriteCopied {
		// nothing: probes for callers are evaluated by the worlds through InRWXWindow()
	}
	doGC, doGrow, doSwitch, to, growDepth := false, false, false, -1, 0
	if cfg.UseDirectives {
		for i := range cfg.Directives {
			d := &cfg.Directives[i]
			if d.P == cfg.Phase && d.Task == t && d.Site == site && d.Key == k && d.Nth == n {
				switch d.Act {
				case ActGC:
					doGC = true
				case ActGrow:
					doGrow, growDepth = true, d.To
				case ActSwitch:
					doSwitch, to = true, d.To
				}
			}
		}
	} else {
		h := mix(mix(mix(mix(mix(cfg.Seed, uint64(cfg.Phase)), uint64(t)), uint64(site)), k), uint64(n))
		if cfg.GCPermille > 0 && gcCount < cfg.MaxGC && int(h%1000) < cfg.GCPermille {
			doGC = true
		}
		h2 := mix(h, 0x51)
		if cfg.GrowPermille > 0 && int(h2%1000) < cfg.GrowPermille {
			doGrow, growDepth = true, 1+int((h2>>20)%24)
		}
		h3 := mix(h, 0x52)
		if cfg.Permille > 0 && int(h3%1000) < cfg.Permille {
			to = pickRunnable(h3>>20, t)
			doSwitch = to >= 0
		}
	}
	if !doGC && !doGrow && !doSwitch {
		logEvent(t, site, ActContinue, 0, k, n)
		return
	}
	if doGC {
		logEvent(t, site, ActGC, 0, k, n)
		record(Directive{Task: t, Site: site, Key: k, Nth: n, Act: ActGC})
		gcCount++
		for l := 0; l < simhook.NumLocks; l++ {
			if holder[l] >= 0 {
				ProbeGCWhileLockHeld++
				break
			}
		}
		if GCFn != nil {
			GCFn()
		}
	}
	if doGrow {
		logEvent(t, site, ActGrow, growDepth, k, n)
		record(Directive{Task: t, Site: site, Key: k, Nth: n, Act: ActGrow, To: growDepth})
		growCount++
		growStack(growDepth)
	}
	if doSwitch && to >= 0 && to < nTasks && state[to] == stRunnable && to != t {
		logEvent(t, site, ActSwitch, to, k, n)
		record(Directive{Task: t, Site: site, Key: k, Nth: n, Act: ActSwitch, To: to})
		preempts[site]++
		pass(t, to)
	}
}

//go:noinline
//go:norace
func growStack(depth int) int {
	var pad [1024]byte
	pad[depth&1023] = byte(depth)
	if depth <= 0 {
		return int(pad[0])
	}
	return growStack(depth-1) + int(pad[depth&1023])
}

// Acquire models taking a real lock.
//
//go:norace
func Acquire(l int) {
	if !active {
		return
	}
	t := int(cur)
	queued := false
	for holder[l] != -1 {
		if int(holder[l]) == t {
			abort("relock:" + simhook.LockNames[l])
			return
		}
		if !queued {
			queued = true
			ProbeLockQueue++
		}
		state[t] = stBlocked
		waitLock[t] = int8(l)
		bk := uint64(l) | 1<<16
		bn := nextNth(t, simhook.SiteLockAcquired, bk)
		nxt := pickRunnable(0, t) // default: lowest runnable id
		if nxt < 0 {
			abort("deadlock")
			return
		}
		if cfg.UseDirectives {
			if d, ok := lookupDirective(t, simhook.SiteLockAcquired, bk, bn, false); ok && d.To < nTasks && state[d.To] == stRunnable {
				nxt = d.To
			}
		} else {
			nxt = pickRunnable(mix(mix(mix(cfg.Seed, uint64(t)), bk), uint64(bn)), t)
			record(Directive{Task: t, Site: simhook.SiteLockAcquired, Key: bk, Nth: bn, Act: ActSwitch, To: nxt})
		}
		logEvent(t, simhook.SiteLockAcquired, ActSwitch, nxt, bk, bn)
		pass(t, nxt)
		if !active {
			return
		}
	}
	holder[l] = int8(t)
	Yield(simhook.SiteLockAcquired, uintptr(l))
}

// Release models releasing a real lock (call it after the real unlock).
//
//go:norace
func Release(l int) {
	if !active {
		return
	}
	holder[l] = -1
	for w := 0; w < nTasks; w++ {
		if state[w] == stBlocked && int(waitLock[w]) == l {
			state[w] = stRunnable
		}
	}
	Yield(simhook.SiteLockReleased, uintptr(l))
}

// Fault decides whether the system call at `site` fails.
//
//go:norace
func Fault(site int, key, arg uintptr) error {
	if site == simhook.SiteMprotect {
		notePageProt(key, arg)
	}
	if !active {
		return nil
	}
	t := int(cur)
	n := nextNth(t, site, 0)
	siteCnt[site]++
	kind := FaultNone
	if cfg.UseDirectives {
		if d, ok := lookupDirective(t, site, 0, n, true); ok {
			kind = d.To
		}
	} else if cfg.FaultPermille[site] > 0 && nFaults < cfg.MaxFaults {
		h := mix(mix(mix(cfg.Seed^0xfa17, uint64(t)), uint64(site)), uint64(n))
		if int(h%1000) < cfg.FaultPermille[site] && len(cfg.FaultKinds[site]) > 0 {
			kind = cfg.FaultKinds[site][(h>>20)%uint64(len(cfg.FaultKinds[site]))]
		}
	}
	if kind == FaultNone {
		return nil
	}
	nFaults++
	faultCount[kind]++
	logEvent(t, site, ActFault, kind, 0, n)
	record(Directive{Task: t, Site: site, Key: 0, Nth: n, Act: ActFault, To: kind})
	switch kind {
	case FaultEACCES:
		if site == simhook.SiteMprotect {
			unnotePageProt(key)
		}
		return syscall.EACCES
	case FaultENOMEM:
		if site == simhook.SiteMprotect {
			unnotePageProt(key)
		}
		return syscall.ENOMEM
	}
	return syscall.EIO
}

// readFaultKind is Fault for the reader seam: returns the kind instead of an errno.
//
//go:norace
func readFaultKind(off int64) int {
	if !active {
		return FaultNone
	}
	site := simhook.SiteExeRead
	t := int(cur)
	n := nextNth(t, site, 1) // key 1: fault counter, separate from the yield counter
	kind := FaultNone
	if cfg.UseDirectives {
		if d, ok := lookupDirective(t, site, 0, n, true); ok {
			kind = d.To
		}
	} else if cfg.FaultPermille[site] > 0 && nFaults < cfg.MaxFaults {
		h := mix(mix(mix(cfg.Seed^0xfa17, uint64(t)), uint64(site)), uint64(n))
		if int(h%1000) < cfg.FaultPermille[site] && len(cfg.FaultKinds[site]) > 0 {
			kind = cfg.FaultKinds[site][(h>>20)%uint64(len(cfg.FaultKinds[site]))]
		}
	}
	if kind != FaultNone {
		nFaults++
		faultCount[kind]++
		logEvent(t, site, ActFault, kind, 0, n)
		record(Directive{Task: t, Site: site, Key: 0, Nth: n, Act: ActFault, To: kind})
	}
	return kind
}

// simulated page table fed by the mprotect seam: open addressing, never deleted
const pageSlots = 1 << 14

type pageEnt struct {
	page, prot, prev uintptr
	used             bool
}

var pageTab [pageSlots]pageEnt

//go:norace
func pageSlot(page uintptr) *pageEnt {
	h := (page >> 12) * 0x9e3779b97f4a7c15
	for i := uintptr(0); i < pageSlots; i++ {
		e := &pageTab[(h+i)&(pageSlots-1)]
		if !e.used {
			e.used, e.page, e.prot, e.prev = true, page, 5, 5
			return e
		}
		if e.page == page {
			return e
		}
	}
	return &pageTab[0]
}

//go:norace
func notePageProt(page, prot uintptr) {
	e := pageSlot(page)
	e.prev = e.prot
	if e.prot&2 != 0 && prot&2 == 0 {
		anyRWX--
	} else if e.prot&2 == 0 && prot&2 != 0 {
		anyRWX++
	}
	e.prot = prot
}

// unnotePageProt reverts the note for a call that is about to be failed by injection.
//
//go:norace
func unnotePageProt(page uintptr) {
	e := pageSlot(page)
	if e.prot&2 != 0 && e.prev&2 == 0 {
		anyRWX--
	} else if e.prot&2 == 0 && e.prev&2 != 0 {
		anyRWX++
	}
	e.prot = e.prev
}

// WritablePages returns the pages the mprotect seam believes to be writable right now.
//
//go:norace
func WritablePages() []uintptr {
	var out []uintptr
	for i := range pageTab {
		if pageTab[i].used && pageTab[i].prot&2 != 0 {
			out = append(out, pageTab[i].page)
		}
	}
	return out
}

// ResetPageTable forgets the simulated page table (used after a world restored protections itself).
//
//go:norace
func ResetPageTable() {
	for i := range pageTab {
		pageTab[i] = pageEnt{}
	}
	anyRWX = 0
}

// InRWXWindow reports whether some page is currently RWX according to the seam.
//
//go:norace
func InRWXWindow() bool { return anyRWX > 0 }

// FaultsFired returns the number of faults injected so far in the current run.
//
//go:norace
func FaultsFired() int { return nFaults }

// CurTask returns the id of the running task (-1 outside a run).
//
//go:norace
func CurTask() int {
	if !active {
		return -1
	}
	return int(cur)
}

// Active reports whether a run is in progress.
//
//go:norace
func Active() bool { return active }

// LockHolder returns the task holding lock l in the model, or -1.
//
//go:norace
func LockHolder(l int) int { return int(holder[l]) }

//go:norace
func taskExit(t int) {
	state[t] = stDone
	if !active {
		unpark(MaxTasks)
		return
	}
	nxt := -1
	for i := 0; i < nTasks; i++ {
		if state[i] == stRunnable {
			nxt = i
			break
		}
	}
	if nxt >= 0 {
		cur = int32(nxt)
		switches = mix(switches, uint64(t)<<8|uint64(nxt)|1<<16)
		unpark(nxt)
		return
	}
	for i := 0; i < nTasks; i++ {
		if state[i] == stBlocked {
			abort("deadlock-at-exit")
			return
		}
	}
	active = false
	unpark(MaxTasks)
}

//go:norace
func resetState(c Config, n int) {
	cfg = c
	nTasks = n
	aborted = false
	abortWhy = ""
	for i := range wake {
		wake[i] = 0
	}
	for i := range state {
		state[i] = stUnborn
		waitLock[i] = -1
	}
	for i := 0; i < n; i++ {
		state[i] = stRunnable
	}
	for i := range holder {
		holder[i] = -1
	}
	for i := range nthTab {
		nthTab[i] = nthEntry{}
	}
	evseq, steps, nFired, nEvents = 0, 0, 0, 0
	siteCnt = [NumSites]uint64{}
	preempts = [NumSites]uint64{}
	gcCount, growCount, nFaults = 0, 0, 0
	faultCount = [NumFaultKind]int{}
	switches, nSwitch = 0, 0
	ProbeGCWhileLockHeld, ProbeLockQueue, ProbeCallerOnRWX = 0, 0, 0
}

//go:norace
func taskMain(t int, fn func(), panics *[MaxTasks]interface{}) {
	park(t)
	runGuarded(t, fn, panics)
	joinWG.Done() // real happens-before edge task -> driver only (driver Waits after the run)
	taskExit(t)
}

//go:norace
func runGuarded(t int, fn func(), panics *[MaxTasks]interface{}) {
	defer catch(t, panics)
	fn()
}

//go:norace
func catch(t int, panics *[MaxTasks]interface{}) {
	if r := recover(); r != nil {
		panics[t] = r
	}
}

// Stats of a finished run.
type Stats struct {
	Events     uint64            `json:"events"`
	Steps      int               `json:"steps"`
	Switches   int               `json:"switches"`
	SwitchHash uint64            `json:"switch_hash"`
	GC         int               `json:"gc"`
	Grow       int               `json:"grow"`
	Faults     map[string]int    `json:"faults,omitempty"`
	Preempts   map[string]uint64 `json:"preempts,omitempty"`
	Sites      map[string]uint64 `json:"sites,omitempty"`
	Probes     map[string]int    `json:"probes,omitempty"`
	Aborted    string            `json:"aborted,omitempty"`
}

// Result of Run.
type Result struct {
	Stats  Stats
	Fired  []Directive
	Panics [MaxTasks]interface{}
	Tail   []Event
}

// Run executes the tasks under the scheduler and returns when all of them are done.
// Task 0 starts. Must not be called re-entrantly.
func Run(c Config, tasks []func()) *Result {
	if len(tasks) == 0 || len(tasks) > MaxTasks {
		panic("simcore: bad task count")
	}
	resetState(c, len(tasks))
	res := &Result{}
	joinWG.Add(len(tasks))
	for i, fn := range tasks {
		go taskMain(i, fn, &res.Panics)
	}
	start()
	park(MaxTasks)
	joinWG.Wait()
	finish(res)
	return res
}

//go:norace
func start() {
	active = true
	cur = 0
	unpark(0)
}

//go:norace
func finish(res *Result) {
	active = false
	res.Stats = Snapshot()
	res.Fired = append([]Directive(nil), fired[:nFired]...)
	res.Tail = TailEvents()
}

// Snapshot returns the statistics of the current (or last) run.
//
//go:norace
func Snapshot() Stats {
	s := Stats{Events: nEvents, Steps: steps, Switches: nSwitch, SwitchHash: switches, GC: gcCount, Grow: growCount,
		Aborted: abortWhy}
	s.Faults = map[string]int{}
	for k := 1; k < NumFaultKind; k++ {
		if faultCount[k] > 0 {
			s.Faults[FaultName(k)] = faultCount[k]
		}
	}
	s.Preempts = map[string]uint64{}
	s.Sites = map[string]uint64{}
	for i := 0; i < NumSites; i++ {
		if preempts[i] > 0 {
			s.Preempts[SiteName(i)] = preempts[i]
		}
		if siteCnt[i] > 0 {
			s.Sites[SiteName(i)] = siteCnt[i]
		}
	}
	s.Probes = map[string]int{}
	if ProbeGCWhileLockHeld > 0 {
		s.Probes["gc_while_lock_held"] = ProbeGCWhileLockHeld
	}
	if ProbeLockQueue > 0 {
		s.Probes["task_queued_on_lock"] = ProbeLockQueue
	}
	if ProbeCallerOnRWX > 0 {
		s.Probes["caller_ran_while_page_rwx"] = ProbeCallerOnRWX
	}
	return s
}

// FiredSoFar returns the directives fired so far (for abort reports).
//
//go:norace
func FiredSoFar() []Directive { return append([]Directive(nil), fired[:nFired]...) }

// TailEvents returns the last events of the ring, oldest first.
//
//go:norace
func TailEvents() []Event {
	n := nEvents
	if n > ringSize {
		n = ringSize
	}
	out := make([]Event, 0, n)
	for i := nEvents - n; i < nEvents; i++ {
		out = append(out, ring[i%ringSize])
	}
	return out
}

// LastEventSeq is read by the watchdog.
//
//go:norace
func LastEventSeq() uint64 { return evseq }

// Seq returns the global logical time and advances it (history stamping).
//
//go:norace
func Seq() uint64 {
	evseq++
	return evseq
}

// NoteCallerOnRWX is called by worlds when a caller executes while a page is RWX.
//
//go:norace
func NoteCallerOnRWX() { ProbeCallerOnRWX++ }
