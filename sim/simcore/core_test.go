package simcore

import (
	"sync"
	"testing"

	"github.com/tencent/goom/internal/simhook"
)

var (
	shared int
	mu     sync.Mutex
)

func work(locked bool) func() {
	return func() {
		for i := 0; i < 20; i++ {
			if locked {
				Acquire(simhook.LockPatches)
				mu.Lock()
			}
			v := shared
			Yield(SiteUser, 0)
			shared = v + 1
			if locked {
				mu.Unlock()
				Release(simhook.LockPatches)
			}
			Yield(SiteUser, 1)
		}
	}
}

func TestDeterministic(t *testing.T) {
	var hashes []uint64
	for rep := 0; rep < 3; rep++ {
		shared = 0
		r := Run(Config{Seed: 42, Permille: 300, GCPermille: 20, MaxGC: 5, MaxSteps: 100000}, []func(){work(true), work(true), work(true)})
		if shared != 60 {
			t.Fatalf("locked counter = %d", shared)
		}
		hashes = append(hashes, r.Stats.SwitchHash)
		t.Logf("switches=%d hash=%x gc=%d", r.Stats.Switches, r.Stats.SwitchHash, r.Stats.GC)
	}
	if hashes[0] != hashes[1] || hashes[1] != hashes[2] {
		t.Fatalf("nondeterministic %v", hashes)
	}
	r := Run(Config{Seed: 43, Permille: 300, MaxSteps: 100000}, []func(){work(true), work(true), work(true)})
	if r.Stats.SwitchHash == hashes[0] {
		t.Fatalf("seed has no effect")
	}
	// replay through directives
	r1 := Run(Config{Seed: 42, Permille: 300, MaxSteps: 100000}, []func(){work(true), work(true), work(true)})
	r2 := Run(Config{UseDirectives: true, Directives: r1.Fired, MaxSteps: 100000}, []func(){work(true), work(true), work(true)})
	if r1.Stats.SwitchHash != r2.Stats.SwitchHash || r1.Stats.Events != r2.Stats.Events {
		t.Fatalf("directive replay differs: %x/%d vs %x/%d", r1.Stats.SwitchHash, r1.Stats.Events, r2.Stats.SwitchHash, r2.Stats.Events)
	}
}

func TestLostUpdate(t *testing.T) {
	shared = 0
	Run(Config{Seed: 7, Permille: 300, MaxSteps: 100000}, []func(){work(false), work(false)})
	if shared == 40 {
		t.Fatalf("expected lost updates under preemption, got %d", shared)
	}
	t.Logf("unlocked counter = %d (race expected under -race)", shared)
}
