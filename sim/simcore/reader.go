package simcore

import (
	"io"
	"syscall"

	"github.com/tencent/goom/internal/simhook"
)

// simReader wraps the reader goom uses for the executable: every ReadAt is a scheduling point
// and a fault point.
type simReader struct{ r io.ReaderAt }

func wrapReaderAt(r io.ReaderAt) io.ReaderAt { return &simReader{r: r} }

// ReadCalls counts ReadAt calls seen by the seam (all runs).
var ReadCalls int

//go:norace
func (s *simReader) ReadAt(p []byte, off int64) (int, error) {
	ReadCalls++
	Yield(simhook.SiteExeRead, 0)
	switch readFaultKind(off) {
	case FaultEIO:
		return 0, syscall.EIO
	case FaultShort:
		n, _ := s.r.ReadAt(p[:len(p)/2], off)
		return n, io.ErrUnexpectedEOF
	case FaultZero:
		n, err := s.r.ReadAt(p, off)
		for i := range p[:n] {
			p[i] = 0
		}
		return n, err
	}
	return s.r.ReadAt(p, off)
}

// Close forwards to the wrapped reader when it is closable.
func (s *simReader) Close() error {
	if c, ok := s.r.(io.Closer); ok {
		return c.Close()
	}
	return nil
}
