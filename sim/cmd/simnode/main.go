// Command simnode is the simulation child: it executes plans of one world inside one OS process
// and writes one JSON line per plan. Built from /repo's working tree with -tags verif.
//
//	simnode batch -prop C02 -seed0 N -n K -tier quick -out results.jsonl [-known id,id]
//	simnode run   -plan plan.json -out results.jsonl [-known id,id]
//	simnode gen   -prop C02 -seed N -tier quick
package main

import (
	"bufio"
	"encoding/json"
	"flag"
	"fmt"
	"os"
	"runtime"
	"runtime/debug"
	"strings"
	"time"

	"github.com/tencent/goom/verifsim/simcore"
	"github.com/tencent/goom/verifsim/simenv"
	"github.com/tencent/goom/verifsim/world"
	"github.com/tencent/goom/verifsim/zoo/fn"
	"github.com/tencent/goom/verifsim/zoo/thunk"

	_ "github.com/tencent/goom/verifsim/worlds/concw"
	_ "github.com/tencent/goom/verifsim/worlds/hist"
	_ "github.com/tencent/goom/verifsim/worlds/ifacew"
	_ "github.com/tencent/goom/verifsim/worlds/logw"
	_ "github.com/tencent/goom/verifsim/worlds/memw"
	_ "github.com/tencent/goom/verifsim/worlds/originw"
	_ "github.com/tencent/goom/verifsim/worlds/spacew"
	_ "github.com/tencent/goom/verifsim/worlds/stubw"
	_ "github.com/tencent/goom/verifsim/worlds/symw"
	_ "github.com/tencent/goom/verifsim/worlds/varw"
)

var (
	out     *bufio.Writer
	outFile *os.File
	current *world.Result
	curPlan *world.Plan
)

func emit(v interface{}) {
	b, err := json.Marshal(v)
	if err != nil {
		fmt.Fprintln(os.Stderr, "simnode: marshal:", err)
		os.Exit(2)
	}
	out.Write(b)
	out.WriteByte('\n')
	out.Flush()
}

func knownSet(s string) map[string]bool {
	m := map[string]bool{}
	for _, k := range strings.Split(s, ",") {
		if k != "" {
			m[k] = true
		}
	}
	return m
}

func main() {
	if len(os.Args) < 2 {
		fmt.Fprintln(os.Stderr, "usage: simnode batch|run|gen ...")
		os.Exit(2)
	}
	mode := os.Args[1]
	fs := flag.NewFlagSet(mode, flag.ExitOnError)
	prop := fs.String("prop", "", "property id")
	wname := fs.String("world", "", "world (default: the property's world)")
	seed0 := fs.Uint64("seed0", 1, "first plan seed")
	seed := fs.Uint64("seed", 1, "plan seed (gen)")
	n := fs.Int("n", 1, "number of plans")
	tier := fs.String("tier", "quick", "quick|thorough")
	outPath := fs.String("out", "", "result file (JSON lines)")
	planPath := fs.String("plan", "", "plan / replay file (run)")
	known := fs.String("known", "", "open known-finding ids")
	sample := fs.Int("sample", 0, "attach the plan to the first N ok results")
	fs.Parse(os.Args[2:])

	debug.SetGCPercent(-1)
	simcore.GCFn = simenv.GC
	thunk.SlotFn = simcore.CurTask
	fn.SlotFn = simcore.CurTask

	if *wname == "" {
		*wname = world.PropWorld[*prop]
	}
	if mode == "gen" {
		w := world.Get(*wname)
		if w == nil {
			fmt.Fprintln(os.Stderr, "simnode: no world for", *prop, *wname)
			os.Exit(2)
		}
		b, _ := json.MarshalIndent(w.Gen(*prop, *seed, *tier), "", " ")
		fmt.Println(string(b))
		return
	}
	if *outPath == "" {
		fmt.Fprintln(os.Stderr, "simnode: -out required")
		os.Exit(2)
	}
	var err error
	outFile, err = os.OpenFile(*outPath, os.O_CREATE|os.O_WRONLY|os.O_APPEND, 0644)
	if err != nil {
		fmt.Fprintln(os.Stderr, "simnode:", err)
		os.Exit(2)
	}
	out = bufio.NewWriter(outFile)

	img, err := simenv.Shared()
	if err != nil {
		fmt.Fprintln(os.Stderr, "simnode: snapshot:", err)
		os.Exit(2)
	}
	simcore.AbortFn = func(why string) {
		// called on the aborting task's goroutine; other tasks may hold real locks: exit now
		r := current
		if r == nil {
			os.Exit(2)
		}
		r.Stats = simcore.Snapshot()
		r.Fired = simcore.FiredSoFar()
		r.Plan = curPlan
		if why == "truncated" {
			if r.Verdict == "ok" {
				r.Verdict = "truncated"
			}
		} else if r.Verdict == "ok" {
			r.Verdict = "violation"
			r.Sig = "liveness/" + why
			r.Msg = "the simulated tasks cannot make progress: " + why
		}
		for _, ev := range simcore.TailEvents() {
			r.Tail = append(r.Tail, fmt.Sprintf("#%d t%d %s %s to=%d nth=%d", ev.Seq, ev.Task, simcore.SiteName(int(ev.Site)), simcore.ActName(int(ev.Act)), ev.To, ev.Nth))
		}
		if len(r.Tail) > 40 {
			r.Tail = r.Tail[len(r.Tail)-40:]
		}
		emit(r)
		os.Exit(3)
	}
	world.Abort = func(res *world.Result, why string) {
		res.Stats = simcore.Snapshot()
		res.Fired = simcore.FiredSoFar()
		res.Plan = curPlan
		emit(res)
		os.Exit(3)
	}
	go watchdog()

	kn := knownSet(*known)
	var plans []*world.Plan
	if mode == "run" {
		b, err := os.ReadFile(*planPath)
		if err != nil {
			fmt.Fprintln(os.Stderr, "simnode:", err)
			os.Exit(2)
		}
		var rf struct {
			Plans []*world.Plan `json:"plans"`
		}
		if err := json.Unmarshal(b, &rf); err != nil || len(rf.Plans) == 0 {
			var p world.Plan
			if err2 := json.Unmarshal(b, &p); err2 != nil {
				fmt.Fprintln(os.Stderr, "simnode: bad plan file:", err, err2)
				os.Exit(2)
			}
			rf.Plans = []*world.Plan{&p}
		}
		plans = rf.Plans
	}
	count := *n
	if mode == "run" {
		count = len(plans)
	}
	for i := 0; i < count; i++ {
		var p *world.Plan
		if mode == "run" {
			p = plans[i]
		} else {
			w := world.Get(*wname)
			if w == nil {
				fmt.Fprintln(os.Stderr, "simnode: no world for", *prop, *wname)
				os.Exit(2)
			}
			p = w.Gen(*prop, *seed0+uint64(i), *tier)
		}
		w := world.Get(p.World)
		if w == nil {
			fmt.Fprintln(os.Stderr, "simnode: unknown world", p.World)
			os.Exit(2)
		}
		emit(map[string]interface{}{"start": p.Seed, "i": i})
		curPlan = p
		res := runOne(w, p, img, kn)
		if mode == "batch" {
			res.BatchFirst = *seed0
		}
		if res.Verdict == "ok" && i < *sample {
			res.Plan = p
		}
		emit(res)
		if res.Verdict == "invalid" {
			continue
		}
		if res.Verdict != "ok" {
			// goom's process-global state is no longer known to be pristine
			os.Exit(3)
		}
		runtime.GC()
	}
	out.Flush()
}

func runOne(w world.World, p *world.Plan, img *simenv.Image, kn map[string]bool) *world.Result {
	res := world.RunWith(w, p, img, kn, func(r *world.Result) { current = r })
	current = nil
	return res
}

// (norace: it peeks at the counters of the plan in progress without synchronisation, on purpose.)
//
//go:norace
func watchdog() {
	// elapsed time is counted in 200 ms sleeps, not read from time.Now: a plan may mock time.Now
	const tick = 200 * time.Millisecond
	last := simcore.LastEventSeq()
	stuck := 0
	lastProg, idle := -1, 0
	for {
		time.Sleep(tick)
		if !simcore.Active() {
			last = simcore.LastEventSeq()
			stuck = 0
			// driver code between scheduler runs (steady setup, final Reset): hooks are inactive there,
			// so a lock that goom leaked blocks the driver for real. Progress = oracle evaluations +
			// operations of the plan in progress.
			r := current
			if r == nil {
				lastProg, idle = -1, 0
				continue
			}
			if prog := r.Checks + r.Ops; prog != lastProg {
				lastProg, idle = prog, 0
				continue
			}
			idle++
			if idle > int(40*time.Second/tick) {
				buf := make([]byte, 1<<18)
				buf = buf[:runtime.Stack(buf, true)]
				r.Stats = simcore.Snapshot()
				r.Fired = simcore.FiredSoFar()
				r.Plan = curPlan
				if r.Verdict == "ok" {
					r.Verdict = "violation"
					r.Sig = "liveness/blocked-outside-run"
					r.Msg = "no progress for 40s while the driver executed goom operations outside a scheduler run (a lock that was never released?)\n" + string(buf)
				}
				emit(r)
				os.Exit(3)
			}
			continue
		}
		lastProg, idle = -1, 0
		if s := simcore.LastEventSeq(); s != last {
			last = s
			stuck = 0
			continue
		}
		stuck++
		if stuck > int(30*time.Second/tick) {
			fmt.Fprintln(os.Stderr, "simnode: WATCHDOG: no scheduler event for 30s (un-hooked real lock or harness bug)")
			buf := make([]byte, 1<<20)
			os.Stderr.Write(buf[:runtime.Stack(buf, true)])
			os.Exit(2)
		}
	}
}
