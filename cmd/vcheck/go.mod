module verif/vcheck

go 1.21
