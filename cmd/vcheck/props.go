package main

var commonAssume = []string{
	"linux/amd64, the repository's Go toolchain, non-PIE binary built with -gcflags=all=-l (the documented way to use goom)",
	"execution is serialised by the simulator: hardware effects of truly parallel cross-modifying code are outside the model",
	"a clean batch is evidence, not proof: seeded sampling of histories, schedules and fault points",
	"GC events rely on GODEBUG=clobberfree=1 + heap churn to make a dangling replacement fail deterministically",
}

const histRule = "one case = one generated history (explicit operation list over 1-3 builders and 2-6 zoo targets) executed under the scheduler with seeded GC / stack-growth events at goom's hook points; non-trivial = the history contains at least one environment event (GC, stack growth, builder dropped, rejected operation) and at least one oracle evaluation on a target; distinct = distinct hash of (operation list, context-switch sequence, fired events)"

func init() {
	props["C01"] = propCfg{World: "hist", Level: "exploration", Quick: 2400, Thorough: 120000, Chunk: 50, Rule: histRule, Assume: commonAssume}
	props["C02"] = propCfg{World: "hist", Level: "exploration", Quick: 2400, Thorough: 120000, Chunk: 50, Rule: histRule, Assume: commonAssume}
	props["C12"] = propCfg{World: "hist", Level: "exploration", Quick: 2400, Thorough: 120000, Chunk: 50, Rule: histRule, Assume: commonAssume}
	props["C13"] = propCfg{World: "hist", Level: "exploration", Quick: 2400, Thorough: 120000, Chunk: 50, Rule: histRule, Assume: commonAssume}
}
