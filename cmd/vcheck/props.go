package main

var commonAssume = []string{
	"linux/amd64, the repository's Go toolchain, non-PIE binary built with -gcflags=all=-l (the documented way to use goom)",
	"execution is serialised by the simulator: hardware effects of truly parallel cross-modifying code are outside the model",
	"a clean batch is evidence, not proof: seeded sampling of histories, schedules and fault points",
	"GC events rely on GODEBUG=clobberfree=1 + heap churn to make a dangling replacement fail deterministically",
}

const histRule = "one case = one generated history (explicit operation list over 1-3 builders and 2-6 zoo targets) executed under the scheduler with seeded GC / stack-growth events at goom's hook points; non-trivial = the history contains at least one environment event (GC, stack growth, builder dropped, rejected operation) and at least one oracle evaluation on a target; distinct = distinct hash of (operation list, context-switch sequence, fired events)"

const varRule = "one case = one generated Set/Apply/Cancel/Reset history over 1-4 zoo variables (27 variables of every kind, exported by pointer and unexported by package.name) and 1-2 builders with seeded GC events between and inside steps; every step is followed by a direct read and an accessor read; non-trivial = at least two Set/Apply operations or a GC event; distinct = hash of (operations, fired events)"

const stubRule = "one case = one stub configuration history (default first, then 0-3 When / In clauses with Return/AndReturn/Returns sequences of length 1-6, calls interleaved with configuration) on one zoo target (fixed, variadic with 0-2 leading fixed parameters) followed by sequential calls (real calls and When.Eval) and, for C05, 2-4 concurrent caller tasks preempted at matcher.result.loaded; non-trivial = at least one clause or a sequence longer than one or at least one context switch in the concurrent phase; distinct = hash of (operations, context-switch sequence, fired events)"

const ifaceRule = "one case = one generated history of interface-variable mocks (Apply and As().Return per method, any subset and order, 1-3 variables biased to same-type pairs, 1-2 builders), calls of single and of all methods through the variable, builder dropped, Reset, with seeded GC events (clobberfree + churn) at every yield including iface.stub.made / iface.applied between two method mocks; non-trivial = at least two method mocks or a GC event; distinct = hash of (operations, fired events)"

const concRule = "one case = one plan of 2-4 mocker tasks (own builder, disjoint targets: apply / stub / when / cancel / reset / call) and 1-3 caller tasks calling 1-3 steadily mocked functions (callback, origin-calling callback, stub) chosen from an address-adjacent window of the zoo so that targets share code pages, executed under the seeded scheduler with preemption at every hook site and GC / stack-growth events; non-trivial = at least one context switch; distinct = hash of (operations, context-switch sequence, fired events)"

const spaceRule = "one case = one process: 1-4 requester tasks issue seeded Acquire+Write+execute requests (sizes 0, 1-256, page size +-1, 2^48, x8 variants up to exhaustion of the reserve) with the mmap path failing always / never / on a seeded half of the calls (errno injected at the mmap seam) and preemption at stub.holder.loaded between the bump pointer's load and add; non-trivial = at least one context switch or injected fault; distinct = hash of (operations, context-switch sequence, fired faults)"

const memRule = "one case = one plan in one of three configurations: (arena) 1-2 writer tasks call memory.WriteTo with seeded offset/length 1..9000 into a 6-page assembly arena of callable cells (small writes, writes straddling page boundaries, multi-page writes, 13-byte writes) while 1-2 caller tasks scheduled at mem.write.rwx / mem.write.copied execute cells on the pages being written; (faults) one writer with errno injected at the mprotect seam; (sweep) patch.Ptr + Apply + Unpatch over 20-200 real functions of linked-but-never-executed library packages and the zoo with a full .text diff and /proc/self/maps check around every write; non-trivial = a context switch or an injected fault occurred, or the plan is a sweep; distinct = hash of (operations, context-switch sequence, fired faults)"

const symRule = "one case = one fresh load of the symbol tables (ResetForVerif) followed by lookups of present functions (every uniquely named function of the binary is covered by consecutive 100-name blocks across seeds), zoo variables, absent and near-miss names, from 1-4 tasks racing into first use under the scheduler; in 70% of the cases exactly one read of the executable fails through the reader seam (EIO, truncation, zero-filled data) at an enumerated call index 0..47; non-trivial = a fault fired or a context switch occurred; distinct = hash of (names, context-switch sequence, fired fault)"

const originRule = "one case = one history over 1-3 Go zoo targets mocked with an origin-calling callback (apply, re-apply, cancel, GC events) whose calls are issued on fresh goroutines below a filler recursion of seeded depth 1..500 frames x 4 fine offsets (every 40th seed sweeps all depths on one target), interleaved with operations on the 19-shape assembly zoo (patch.PtrTrampoline with a placeholder linked before or after the shape, relocated code executed for 6 inputs, refusals must change nothing); non-trivial = every case executes relocated code or a refusal; distinct = hash of (operations, fired events)"

const logRule = "one case = one plan of the behavioural worlds (hist incl. methods with OpenDebug/OpenTrace/Close* spliced in as operations, stub incl. variadics and sequences, iface; same generators and seeds) executed three times in one process - logging off, OpenDebug(), OpenTrace() - with line-by-line transcript comparison; the first seeds are repeated in separate processes with GOOM_DEBUG=1, with an uncreatable log directory and with a log file on /dev/full, and transcript hashes are compared across processes; non-trivial = every case compares at least two logging configurations; distinct = hash of (operations, fired events)"

func init() {
	props["C19"] = propCfg{World: "log", Level: "exploration", Quick: 1500, Thorough: 50000, RaceQ: 480, RaceT: 8000, Chunk: 50, EnvVar: map[string]int{"env:debug": 300, "env:nodir": 150, "env:full": 150}, Rule: logRule, Assume: commonAssume}
	props["C03"] = propCfg{World: "origin", Level: "exploration", Quick: 1600, Thorough: 100000, Chunk: 40, Rule: originRule, Assume: commonAssume}
	props["C10"] = propCfg{World: "sym", Level: "fault_enumeration", Quick: 1500, Thorough: 60000, RaceQ: 200, RaceT: 6000, Chunk: 25, Extra: map[string]int{"pie": 150, "strip": 150, "extlink": 200, "extstrip": 150}, Rule: symRule, Assume: commonAssume}
	props["C14"] = propCfg{World: "mem", Level: "exploration", Quick: 2500, Thorough: 200000, Chunk: 50, Rule: memRule, Assume: commonAssume}
	props["C20"] = propCfg{World: "space", Level: "fault_enumeration", Quick: 1500, Thorough: 100000, RaceQ: 300, RaceT: 10000, PerProc: true, Rule: spaceRule, Assume: commonAssume}
	props["C11"] = propCfg{World: "conc", Level: "exploration", Quick: 3000, Thorough: 80000, RaceQ: 500, RaceT: 10000, Chunk: 50, Rule: concRule, Assume: commonAssume}
	props["C07"] = propCfg{World: "iface", Level: "exploration", Quick: 4000, Thorough: 60000, Chunk: 100, Rule: ifaceRule, Assume: commonAssume}
	props["C04"] = propCfg{World: "stub", Level: "exploration", Quick: 8000, Thorough: 240000, Chunk: 200, Rule: stubRule, Assume: commonAssume}
	props["C05"] = propCfg{World: "stub", Level: "exploration", Quick: 6000, Thorough: 150000, RaceQ: 600, RaceT: 15000, Chunk: 200, Rule: stubRule, Assume: commonAssume}
	props["C08"] = propCfg{World: "var", Level: "exploration", Quick: 6000, Thorough: 200000, Chunk: 200, Rule: varRule, Assume: commonAssume}
	props["C01"] = propCfg{World: "hist", Level: "exploration", Quick: 2400, Thorough: 100000, Chunk: 50, Rule: histRule, Assume: commonAssume}
	props["C02"] = propCfg{World: "hist", Level: "exploration", Quick: 2400, Thorough: 100000, Chunk: 50, Rule: histRule, Assume: commonAssume}
	props["C06"] = propCfg{World: "hist", Level: "exploration", Quick: 2400, Thorough: 100000, Chunk: 50, Rule: histRule + "; for C06 the targets are the methods of the method zoo (exported / unexported, pointer / value receivers, name families Get/GetX/Get1, an unexported struct type, generic instantiations of equal and different GC shape) and every sibling method of the receiver type is called after each step", Assume: commonAssume}
	props["C12"] = propCfg{World: "hist", Level: "exploration", Quick: 2400, Thorough: 120000, Chunk: 50, Rule: histRule, Assume: commonAssume}
	props["C13"] = propCfg{World: "hist", Level: "exploration", Quick: 2400, Thorough: 120000, Chunk: 50, Rule: histRule, Assume: commonAssume}
}
