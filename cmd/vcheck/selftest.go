package main

func selftest(args []string) {
	die(2, "selftest: not built yet")
}
