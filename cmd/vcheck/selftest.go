package main

import (
	"encoding/json"
	"fmt"
	"os"
	"os/exec"
	"path/filepath"
	"sort"
	"strconv"
	"strings"
	"sync"
)

// selftest determinism [--seeds N] [--props C01,C05,...]
//
//	every selected property: N seeds x {GOMAXPROCS 1,4,16} x {plain, race} x 2 repetitions; per seed
//	the verdict, the canonical transcript hash, the context-switch hash and the multiset of fired
//	events must be identical in all runs.
//
// selftest mutants [--only name]
//
//	every patch under /verif/mutants is applied to a scratch worktree of /repo HEAD under /tmp
//	(removed afterwards); the owning check runs against it through a temporary -modfile
//	(VERIF_REPO) and must report a VIOLATION within the quick budget; negative controls must stay
//	silent. /repo itself is never touched, so several mutants run in parallel.
func selftest(args []string) {
	if len(args) == 0 {
		die(2, "selftest determinism|mutants")
	}
	switch args[0] {
	case "determinism":
		selftestDeterminism(args[1:])
	case "mutants":
		selftestMutants(args[1:])
	default:
		die(2, "unknown selftest %s", args[0])
	}
}

var gomaxprocsOverride string

func firedKey(ds []directive) string {
	var ks []string
	for _, d := range ds {
		b, _ := json.Marshal(d)
		ks = append(ks, string(b))
	}
	sort.Strings(ks)
	return strings.Join(ks, ";")
}

func selftestDeterminism(args []string) {
	nSeeds := 40
	var sel []string
	for i := 0; i < len(args); i++ {
		switch args[i] {
		case "--seeds":
			i++
			nSeeds, _ = strconv.Atoi(args[i])
		case "--props":
			i++
			sel = strings.Split(args[i], ",")
		}
	}
	if sel == nil {
		for p := range props {
			sel = append(sel, p)
		}
		sort.Strings(sel)
	}
	scratch, err := os.MkdirTemp(outDir, "selftest-")
	if err != nil {
		os.MkdirAll(outDir, 0755)
		scratch, _ = os.MkdirTemp(outDir, "selftest-")
	}
	defer os.RemoveAll(scratch)
	bins := map[string]string{"plain": filepath.Join(scratch, "simnode"), "race": filepath.Join(scratch, "simnode-race")}
	if err := build(false, bins["plain"]); err != nil {
		die(2, "build: %v", err)
	}
	if err := build(true, bins["race"]); err != nil {
		die(2, "race build: %v", err)
	}
	type key struct {
		prop    string
		seed    uint64
		variant string // plans and event keys depend on the binary (symbol tables, code layout): compare within a build
	}
	type obs struct {
		verdict, trans, fired, cfg string
		sw                         uint64
	}
	var mu sync.Mutex
	seen := map[key][]obs{}
	var wg sync.WaitGroup
	sem := make(chan struct{}, 16)
	runs := 0
	for _, prop := range sel {
		cfg, ok := props[prop]
		if !ok {
			die(2, "unknown property %s", prop)
		}
		n := nSeeds
		if cfg.PerProc && n > 12 {
			n = 12
		}
		for _, variant := range []string{"plain", "race"} {
			for _, gmp := range []string{"1", "4", "16"} {
				for rep := 0; rep < 2; rep++ {
					wg.Add(1)
					runs++
					go func(prop, variant, gmp string, rep int, perProc bool) {
						defer wg.Done()
						sem <- struct{}{}
						defer func() { <-sem }()
						r := &runner{prop: prop, tier: "quick", scratch: scratch, bins: bins}
						step := n
						if perProc {
							step = 1
						}
						for s := 0; s < n; s += step {
							a := []string{"batch", "-prop", prop, "-seed0", strconv.Itoa(777000 + s), "-n", strconv.Itoa(step), "-tier", "quick", "-known", "S1"}
							res, _, _, _ := r.runChildEnv(a, variant, []string{"GOMAXPROCS=" + gmp})
							mu.Lock()
							for _, x := range res {
								seen[key{prop, x.Seed, variant}] = append(seen[key{prop, x.Seed, variant}], obs{x.Verdict, x.Trans, firedKey(x.Fired), variant + "/P" + gmp + "/r" + strconv.Itoa(rep), x.Stats.SwitchHash})
							}
							mu.Unlock()
						}
					}(prop, variant, gmp, rep, cfg.PerProc)
				}
			}
		}
	}
	wg.Wait()
	bad := 0
	cells := 0
	for k, os_ := range seen {
		cells += len(os_)
		for _, o := range os_[1:] {
			if o.verdict != os_[0].verdict || o.trans != os_[0].trans || o.sw != os_[0].sw || o.fired != os_[0].fired {
				bad++
				if bad <= 10 {
					fmt.Printf("NONDETERMINISTIC %s seed %d: %s {%s %s %x} vs %s {%s %s %x} firedEqual=%v\n", k.prop, k.seed, os_[0].cfg, os_[0].verdict, os_[0].trans, os_[0].sw, o.cfg, o.verdict, o.trans, o.sw, o.fired == os_[0].fired)
				}
				break
			}
		}
	}
	fmt.Printf("selftest determinism: %d properties, %d (property,seed) cells, %d observations in %d child batches, %d divergent cells\n", len(sel), len(seen), cells, runs, bad)
	// guard: a new map iteration in goom's reset paths would need a look
	out, _ := exec.Command("sh", "-c", `grep -rn "range .*mockers\|range patches\|range m\.mCache\|range m\.umCache" /repo --include=*.go | grep -v _test.go`).Output()
	fmt.Printf("map iterations in goom's cancel/reset/String paths (order neutralised by identity-keyed decisions, see DESIGN.md §5):\n%s", out)
	if bad > 0 {
		os.Exit(1)
	}
}

func selftestMutants(args []string) {
	only := ""
	par := 3
	for i := 0; i < len(args); i++ {
		switch args[i] {
		case "--only":
			i++
			only = args[i]
		case "--par":
			i++
			par, _ = strconv.Atoi(args[i])
		}
	}
	dir := filepath.Join(verifDir, "mutants")
	ents, _ := os.ReadDir(dir)
	self, _ := os.Executable()
	var mu sync.Mutex
	fail, total := 0, 0
	var lines []string
	sem := make(chan struct{}, par)
	var wg sync.WaitGroup
	for _, e := range ents {
		if !strings.HasSuffix(e.Name(), ".diff") || (only != "" && !strings.Contains(e.Name(), only)) {
			continue
		}
		total++
		wg.Add(1)
		go func(file string) {
			defer wg.Done()
			sem <- struct{}{}
			defer func() { <-sem }()
			// file name: <PROP>[+PROP]-<name>.diff ; prefix "neg-" marks a negative control (no check may fire)
			name := strings.TrimSuffix(file, ".diff")
			neg := strings.HasPrefix(name, "neg-")
			propsPart := strings.SplitN(strings.TrimPrefix(name, "neg-"), "-", 2)[0]
			wt, _ := os.MkdirTemp("", "mut-")
			os.Remove(wt)
			defer func() {
				exec.Command("git", "-C", "/repo", "worktree", "remove", "--force", wt).Run()
				os.RemoveAll(wt)
			}()
			report := func(s string, bad bool) {
				mu.Lock()
				lines = append(lines, s)
				fmt.Print(s)
				if bad {
					fail++
				}
				mu.Unlock()
			}
			if out, err := exec.Command("git", "-C", "/repo", "worktree", "add", "--detach", "-q", wt, "HEAD").CombinedOutput(); err != nil {
				report(fmt.Sprintf("MUTANT  %-46s WORKTREE FAILED: %s\n", name, out), true)
				return
			}
			if out, err := exec.Command("git", "-C", wt, "apply", filepath.Join(dir, file)).CombinedOutput(); err != nil {
				report(fmt.Sprintf("MUTANT  %-46s DOES NOT APPLY: %s\n", name, strings.TrimSpace(string(out))), true)
				return
			}
			evd, _ := os.MkdirTemp("", "mut-ev-")
			defer os.RemoveAll(evd)
			caught, alarms := "", ""
			for _, p := range strings.Split(propsPart, "+") {
				cmd := exec.Command(self, p, "--tier", "quick")
				cmd.Env = append(os.Environ(), "VERIF_SEED=1", "VERIF_REPO="+wt, "VERIF_EVIDENCE_DIR="+evd)
				out, _ := cmd.CombinedOutput()
				code := cmd.ProcessState.ExitCode()
				if strings.Contains(string(out), "VIOLATION property="+p) && code == 1 {
					caught += p + " "
					for _, l := range strings.Split(string(out), "\n") {
						if strings.HasPrefix(l, "violation class") {
							if len(l) > 170 {
								l = l[:170]
							}
							alarms += "    " + l + "\n"
							break
						}
					}
				} else if code == 2 {
					alarms += fmt.Sprintf("    %s: exit 2 (build/harness)\n", p)
				}
			}
			switch {
			case neg && caught == "" && !strings.Contains(alarms, "exit 2"):
				report(fmt.Sprintf("CONTROL %-46s silent (as required)\n", name), false)
			case neg:
				report(fmt.Sprintf("CONTROL %-46s FALSE ALARM by %s\n%s", name, caught, alarms), true)
			case caught != "":
				report(fmt.Sprintf("MUTANT  %-46s caught by %s\n%s", name, caught, alarms), false)
			default:
				report(fmt.Sprintf("MUTANT  %-46s MISSED\n%s", name, alarms), true)
			}
		}(e.Name())
	}
	wg.Wait()
	fmt.Printf("selftest mutants: %d patches, %d problems\n", total, fail)
	if fail > 0 {
		os.Exit(1)
	}
}
