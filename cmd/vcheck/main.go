// Command vcheck is the parent driver of the goom simulator: it rebuilds the simulation child
// from /repo's working tree (build tag verif), fans seeded plans out over child processes,
// classifies, confirms and minimises failures, writes replay files and the evidence file.
//
//	vcheck <PROP> [--tier quick|thorough] [--plans N] [--replay file] [--keep]
//
// exit 0: property held on everything explored (KNOWN-FINDING lines possible)
// exit 1: "VIOLATION property=<id> replay=<path>" printed
// exit 2: build / harness / watchdog trouble (never a VIOLATION line)
package main

import (
	"bufio"
	"bytes"
	"encoding/json"
	"fmt"
	"os"
	"os/exec"
	"path/filepath"
	"regexp"
	"sort"
	"strconv"
	"strings"
	"sync"
	"time"
)

// The tree this binary belongs to: <verifDir>/bin/vcheck. Registered checks run /verif/bin/vcheck;
// a `vp run` snapshot runs its own copy against its own sim/ sources.
var (
	verifDir = "/verif"
	simDir   = "/verif/sim"
	outDir   = "/verif/out"
)

func init() {
	if exe, err := os.Executable(); err == nil {
		if d := filepath.Dir(filepath.Dir(exe)); filepath.Base(filepath.Dir(exe)) == "bin" {
			if _, err := os.Stat(filepath.Join(d, "sim", "go.mod")); err == nil {
				verifDir, simDir, outDir = d, filepath.Join(d, "sim"), filepath.Join(d, "out")
			}
		}
	}
}

// propCfg is the per-property budget table.
type propCfg struct {
	World    string
	Level    string
	Quick    int // plans, plain build
	Thorough int
	RaceQ    int // plans under the race build
	RaceT    int
	Chunk    int
	PerProc  bool           // one plan per process
	Extra    map[string]int // extra build variants ("pie", "strip") -> plans in quick; thorough x20
	EnvVar   map[string]int // environment variants ("env:debug", "env:nodir", "env:full") re-running the FIRST n plain seeds; transcripts are compared across processes
	Rule     string
	Assume   []string
}

var props = map[string]propCfg{}

type directive = map[string]interface{}

type plan = map[string]interface{}

type result struct {
	Prop       string          `json:"prop"`
	World      string          `json:"world"`
	Seed       uint64          `json:"seed"`
	Verdict    string          `json:"verdict"`
	Sig        string          `json:"sig"`
	Msg        string          `json:"msg"`
	At         string          `json:"at"`
	Stats      stats           `json:"stats"`
	Fired      []directive     `json:"fired"`
	Checks     int             `json:"checks"`
	Ops        int             `json:"ops"`
	CaseHash   string          `json:"case_hash"`
	Trans      string          `json:"trans"`
	Nontriv    bool            `json:"nontrivial"`
	Probes     map[string]int  `json:"probes"`
	Known      []string        `json:"known"`
	Tail       []string        `json:"tail"`
	Plan       json.RawMessage `json:"plan"`
	BatchFirst uint64          `json:"batch_first"`
	variant    string
	races      []string
}

type stats struct {
	Events     uint64            `json:"events"`
	Steps      int               `json:"steps"`
	Switches   int               `json:"switches"`
	SwitchHash uint64            `json:"switch_hash"`
	GC         int               `json:"gc"`
	Grow       int               `json:"grow"`
	Faults     map[string]int    `json:"faults"`
	Preempts   map[string]uint64 `json:"preempts"`
	Sites      map[string]uint64 `json:"sites"`
	Probes     map[string]int    `json:"probes"`
	Aborted    string            `json:"aborted"`
}

type knownFinding struct {
	ID       string          `json:"id"`
	Property string          `json:"property"`
	Also     []string        `json:"also_surfaces_in,omitempty"` // further properties whose checks can meet the same defect
	Status   string          `json:"status"`                     // open | fixed
	Commit   string          `json:"commit,omitempty"`
	SigRe    string          `json:"sig_re"`  // regexp on the violation signature
	PlanRe   string          `json:"plan_re"` // regexp on the minimised op-kind pattern (optional)
	What     string          `json:"what"`
	InChild  bool            `json:"in_child,omitempty"` // tolerance predicate implemented in the child (-known)
	Witness  json.RawMessage `json:"witness,omitempty"`  // explicit plan that demonstrates the finding; run first by the owning check
}

func (k *knownFinding) appliesTo(prop string) bool {
	if k.Property == prop {
		return true
	}
	for _, p := range k.Also {
		if p == prop {
			return true
		}
	}
	return false
}

func die(code int, format string, a ...interface{}) {
	fmt.Fprintf(os.Stderr, "vcheck: "+format+"\n", a...)
	os.Exit(code)
}

// altModfile returns extra go-build arguments that point the harness module's replace directive at
// $VERIF_REPO instead of /repo (selftests only: lets mutants be checked in scratch worktrees, in
// parallel, without touching /repo). Registered checks never set it.
func altModfile() []string {
	alt := os.Getenv("VERIF_REPO")
	if alt == "" {
		return nil
	}
	b, err := os.ReadFile(filepath.Join(simDir, "go.mod"))
	if err != nil {
		die(2, "go.mod: %v", err)
	}
	dir, err := os.MkdirTemp("", "vcheck-mod-")
	if err != nil {
		die(2, "modfile: %v", err)
	}
	mod := strings.Replace(string(b), "=> /repo", "=> "+alt, 1)
	os.WriteFile(filepath.Join(dir, "alt.mod"), []byte(mod), 0644)
	sum, _ := os.ReadFile(filepath.Join(simDir, "go.sum"))
	os.WriteFile(filepath.Join(dir, "alt.sum"), sum, 0644)
	return []string{"-modfile=" + filepath.Join(dir, "alt.mod")}
}

func goEnv() []string {
	env := os.Environ()
	env = append(env, "GOFLAGS=-mod=mod", "GOPROXY=off", "GOSUMDB=off", "GOTOOLCHAIN=local")
	return env
}

// build compiles simnode from the current /repo tree.
func buildVariant(variant, dst string) error {
	switch variant {
	case "plain":
		return build(false, dst)
	case "race":
		return build(true, dst)
	}
	os.MkdirAll(filepath.Dir(dst), 0755)
	args := []string{"build", "-tags", "verif", "-gcflags=all=-l", "-o", dst}
	switch variant {
	case "pie":
		args = append(args, "-buildmode=pie")
	case "strip":
		args = append(args, "-ldflags=-s")
	case "extlink": // the system linker lays text and data out differently: function and data slides differ
		args = append(args, "-ldflags=-linkmode=external")
	case "extstrip": // both at once: a slide is needed and the ELF symbol table that helps computing it is gone
		args = append(args, "-ldflags=-linkmode=external -s")
	}
	args = append(args, altModfile()...)
	args = append(args, "./cmd/simnode")
	cmd := exec.Command("go", args...)
	cmd.Dir = simDir
	cmd.Env = goEnv()
	var buf bytes.Buffer
	cmd.Stdout, cmd.Stderr = &buf, &buf
	if err := cmd.Run(); err != nil {
		return fmt.Errorf("go %s: %v\n%s", strings.Join(args, " "), err, buf.String())
	}
	return nil
}

func build(race bool, dst string) error {
	os.MkdirAll(filepath.Dir(dst), 0755)
	// go.sum of the harness module = /repo's go.sum + porcupine (committed in sim/go.sum)
	args := []string{"build", "-tags", "verif", "-gcflags=all=-l", "-o", dst}
	if race {
		// checkptr (implied by -race) rejects goom's deliberate uintptr->pointer conversions; it is
		// not part of any property, the race detector is the oracle here
		args = []string{"build", "-tags", "verif", "-race", "-gcflags=all=-l -d=checkptr=0", "-o", dst}
	}
	args = append(args, altModfile()...)
	args = append(args, "./cmd/simnode")
	cmd := exec.Command("go", args...)
	cmd.Dir = simDir
	cmd.Env = goEnv()
	var buf bytes.Buffer
	cmd.Stdout, cmd.Stderr = &buf, &buf
	if err := cmd.Run(); err != nil {
		return fmt.Errorf("go %s: %v\n%s", strings.Join(args, " "), err, buf.String())
	}
	return nil
}

type job struct {
	seed0   uint64
	n       int
	variant string // plain | race
}

type runner struct {
	prop        string
	tier        string
	bins        map[string]string
	scratch     string
	known       string
	mu          sync.Mutex
	results     []*result
	samples     []json.RawMessage
	procs       int
	harness     []string
	witnessSeen []string
	notes       []string
}

func childEnv(home string, variant string) []string {
	var env []string
	for _, e := range os.Environ() {
		if strings.HasPrefix(e, "HOME=") || strings.HasPrefix(e, "GODEBUG=") || strings.HasPrefix(e, "GORACE=") || strings.HasPrefix(e, "GOOM_DEBUG=") || strings.HasPrefix(e, "GOMAXPROCS=") {
			continue
		}
		env = append(env, e)
	}
	env = append(env, "HOME="+home, "GODEBUG=clobberfree=1", "GOMAXPROCS=4")
	if variant == "race" {
		env = append(env, "GORACE=halt_on_error=0 exitcode=0 atexit_sleep_ms=0 history_size=2")
	}
	if variant == "env:debug" {
		env = append(env, "GOOM_DEBUG=1")
	}
	return env
}

var raceHdr = regexp.MustCompile(`(?m)^WARNING: DATA RACE`)

// parseRaces splits race reports into goom races and harness races. The frame that performed
// each of the two accesses (the first frame of each stack) decides: if it is harness code
// (verifsim) the report is a harness bug; otherwise (goom code, or runtime / reflect code acting on
// memory goom handed to it) the report is goom's, provided a goom frame appears in the report.
func parseRaces(stderr string) (goom []string, harness []string) {
	parts := strings.Split(stderr, "==================")
	for _, p := range parts {
		if !raceHdr.MatchString(p) {
			continue
		}
		lines := strings.Split(p, "\n")
		var tops []string
		for i, l := range lines {
			t := strings.TrimSpace(l)
			if strings.HasPrefix(t, "Write at") || strings.HasPrefix(t, "Read at") || strings.HasPrefix(t, "Previous write at") ||
				strings.HasPrefix(t, "Previous read at") || strings.HasPrefix(t, "Atomic") || strings.HasPrefix(t, "Previous atomic") {
				for j := i + 1; j < len(lines); j++ {
					f := strings.TrimSpace(lines[j])
					if f == "" {
						break
					}
					if strings.HasPrefix(f, "/") {
						continue // file:line of the previous frame
					}
					tops = append(tops, f)
					break
				}
			}
		}
		isHarness := func(f string) bool { return strings.HasPrefix(f, "github.com/tencent/goom/verifsim") }
		hasGoom := false
		for _, f := range frameRe.FindAllString(p, -1) {
			if !strings.Contains(f, "verifsim") {
				hasGoom = true
			}
		}
		harnessTop := false
		for _, f := range tops {
			if isHarness(f) {
				harnessTop = true
			}
		}
		switch {
		case len(tops) >= 2 && !harnessTop && hasGoom:
			goom = append(goom, strings.TrimSpace(p))
		case !harnessTop && !hasGoom:
			// both accesses inside the standard library (e.g. fmt's pooled printers reused by two
			// harness tasks) and no goom frame anywhere: an artefact of the baton being invisible
			// to the detector, neither a goom race nor harness state; counted, not reported
			stdlibOnlyReports++
		default:
			harness = append(harness, strings.TrimSpace(p))
		}
	}
	return
}

var stdlibOnlyReports int

var procSeq int
var procMu sync.Mutex

func (r *runner) nextProc() int {
	procMu.Lock()
	defer procMu.Unlock()
	procSeq++
	return procSeq
}

// runChild executes one simnode process; returns parsed results, the seed that was started but
// produced no result (crash), stderr and the exit code.
func (r *runner) runChild(args []string, variant string) (res []*result, crashedSeed *uint64, stderr string, code int) {
	return r.runChildEnv(args, variant, nil)
}

func (r *runner) runChildEnv(args []string, variant string, extraEnv []string) (res []*result, crashedSeed *uint64, stderr string, code int) {
	id := r.nextProc()
	home := filepath.Join(r.scratch, fmt.Sprintf("h%d", id))
	os.MkdirAll(home, 0755)
	defer os.RemoveAll(home)
	outf := filepath.Join(r.scratch, fmt.Sprintf("o%d.jsonl", id))
	defer os.Remove(outf)
	bin := r.bins[variant]
	if strings.HasPrefix(variant, "env:") {
		bin = r.bins["plain"]
		switch variant {
		case "env:nodir": // $HOME/logs exists but is a regular file: the log directory cannot be created
			os.WriteFile(filepath.Join(home, "logs"), []byte("x"), 0644)
		case "env:full": // every write to the log file fails with ENOSPC
			os.MkdirAll(filepath.Join(home, "logs"), 0755)
			os.Symlink("/dev/full", filepath.Join(home, "logs", "goom-mocker.log"))
		}
	}
	cmd := exec.Command(bin, append(args, "-out", outf)...)
	cmd.Env = append(childEnv(home, variant), extraEnv...)
	var eb bytes.Buffer
	cmd.Stderr = &eb
	cmd.Stdout = nil
	done := make(chan error, 1)
	if err := cmd.Start(); err != nil {
		return nil, nil, err.Error(), 2
	}
	go func() { done <- cmd.Wait() }()
	select {
	case err := <-done:
		if err != nil {
			if ee, ok := err.(*exec.ExitError); ok {
				code = ee.ExitCode()
			} else {
				code = 2
			}
		}
	case <-time.After(10 * time.Minute):
		cmd.Process.Kill()
		<-done
		code = 2
		eb.WriteString("\nvcheck: child killed after 10 minutes\n")
	}
	stderr = eb.String()
	f, err := os.Open(outf)
	if err != nil {
		return nil, nil, stderr, code
	}
	defer f.Close()
	sc := bufio.NewScanner(f)
	sc.Buffer(make([]byte, 1<<20), 64<<20)
	var started *uint64
	for sc.Scan() {
		line := sc.Bytes()
		if bytes.HasPrefix(line, []byte(`{"i":`)) || bytes.Contains(line[:min(len(line), 40)], []byte(`"start"`)) {
			var s struct {
				Start uint64 `json:"start"`
			}
			if json.Unmarshal(line, &s) == nil {
				v := s.Start
				started = &v
				continue
			}
		}
		var x result
		if err := json.Unmarshal(line, &x); err != nil {
			continue
		}
		x.variant = variant
		res = append(res, &x)
		started = nil
	}
	crashedSeed = started
	return
}

func min(a, b int) int {
	if a < b {
		return a
	}
	return b
}

var crashSigRe = regexp.MustCompile(`(?m)^(fatal error: .*|panic: .*|unexpected fault address.*|SIGSEGV.*|\[signal .*)$`)

func crashSig(stderr string) (string, string) {
	m := crashSigRe.FindAllString(stderr, 3)
	first := "process died"
	if len(m) > 0 {
		first = m[0]
	}
	first = regexp.MustCompile(`0x[0-9a-f]+`).ReplaceAllString(first, "ADDR")
	if len(first) > 120 {
		first = first[:120]
	}
	tail := stderr
	if len(tail) > 3000 {
		tail = tail[:3000]
	}
	return "crash/" + first, tail
}

// genPlan regenerates the plan of a seed with the binary of the variant that ran it (generators may
// consult the build: e.g. generic targets are not generated in race builds).
func (r *runner) genPlan(seed uint64, variant string) json.RawMessage {
	bin := r.bins[variant]
	if bin == "" {
		bin = r.bins["plain"]
	}
	cmd := exec.Command(bin, "gen", "-prop", r.prop, "-seed", strconv.FormatUint(seed, 10), "-tier", r.tier)
	cmd.Env = childEnv(r.scratch, "plain")
	b, err := cmd.Output()
	if err != nil {
		return nil
	}
	// goom's logger prints its log file location on stdout at init: keep the JSON document only
	if i := bytes.Index(b, []byte("{\n")); i >= 0 {
		b = b[i:]
	}
	if !json.Valid(b) {
		return nil
	}
	return json.RawMessage(b)
}

// runJob executes a chunk of consecutive seeds, restarting the child after every early exit.
func (r *runner) runJob(j job, sample int) {
	s := j.seed0
	end := j.seed0 + uint64(j.n)
	for s < end {
		args := []string{"batch", "-prop", r.prop, "-seed0", strconv.FormatUint(s, 10), "-n", strconv.FormatUint(end-s, 10), "-tier", r.tier}
		if r.known != "" {
			args = append(args, "-known", r.known)
		}
		if sample > 0 {
			args = append(args, "-sample", strconv.Itoa(sample))
			sample = 0
		}
		res, crashed, stderr, code := r.runChild(args, j.variant)
		var goomRaces, harnRaces []string
		if j.variant == "race" {
			goomRaces, harnRaces = parseRaces(stderr)
		}
		r.mu.Lock()
		r.procs++
		for _, x := range res {
			r.results = append(r.results, x)
		}
		if len(harnRaces) > 0 {
			violated := false
			for _, x := range res {
				if x.Verdict == "violation" {
					violated = true
				}
			}
			if violated || crashed != nil || len(goomRaces) > 0 {
				// the same process also shows a genuine violation: tasks that run into each other's
				// mocks touch harness state in ways a correct goom never causes; the violation is
				// what gets reported, the harness report is kept as a note
				r.notes = append(r.notes, "harness-level race report next to a violation (not counted as harness trouble)")
			} else {
				r.harness = append(r.harness, "race report with harness frames on top:\n"+harnRaces[0])
			}
		}
		r.mu.Unlock()
		last := s
		if len(res) > 0 {
			last = res[len(res)-1].Seed + 1
		}
		if len(goomRaces) > 0 {
			// attribute to the chunk: re-run seed by seed to find the plan
			r.attributeRace(s, last, crashed, goomRaces, j.variant)
		}
		if crashed != nil {
			sig, tail := crashSig(stderr)
			if code == 2 && strings.Contains(stderr, "WATCHDOG") {
				r.mu.Lock()
				r.harness = append(r.harness, fmt.Sprintf("watchdog fired at seed %d:\n%s", *crashed, tail))
				r.mu.Unlock()
			} else if code == 2 && strings.Contains(stderr, "simnode:") && !strings.Contains(stderr, "goroutine ") {
				r.mu.Lock()
				r.harness = append(r.harness, fmt.Sprintf("child refused to run at seed %d:\n%s", *crashed, tail))
				r.mu.Unlock()
			} else {
				x := &result{Prop: r.prop, Seed: *crashed, Verdict: "violation", Sig: sig, Msg: tail, At: "process crash", variant: j.variant}
				x.Plan = r.genPlan(*crashed, j.variant)
				r.mu.Lock()
				r.results = append(r.results, x)
				r.mu.Unlock()
			}
			last = *crashed + 1
		} else if code != 0 && code != 3 && len(res) == 0 {
			r.mu.Lock()
			r.harness = append(r.harness, fmt.Sprintf("child exit %d without results:\n%s", code, stderr))
			r.mu.Unlock()
			return
		}
		if last <= s {
			last = s + 1
		}
		s = last
	}
}

// attributeRace re-runs each seed of [from,to) alone under the race build to find the plan(s)
// that produce a goom race report.
func (r *runner) attributeRace(from, to uint64, crashed *uint64, reports []string, variant string) {
	if crashed != nil && *crashed >= to {
		to = *crashed + 1
	}
	for s := from; s < to; s++ {
		args := []string{"batch", "-prop", r.prop, "-seed0", strconv.FormatUint(s, 10), "-n", "1", "-tier", r.tier}
		_, _, stderr, _ := r.runChild(args, variant)
		g, _ := parseRaces(stderr)
		if len(g) > 0 {
			x := &result{Prop: r.prop, Seed: s, Verdict: "violation", Sig: "race/" + raceKey(g[0]), Msg: g[0], At: "race detector", variant: variant}
			x.Plan = r.genPlan(s, variant)
			r.mu.Lock()
			r.results = append(r.results, x)
			r.mu.Unlock()
			return // one witness is enough
		}
	}
	// not reproducible alone: report with the first seed of the chunk as context (still a goom race)
	x := &result{Prop: r.prop, Seed: from, Verdict: "violation", Sig: "race/" + raceKey(reports[0]), Msg: reports[0] + "\n(not attributable to a single plan of the chunk)", At: "race detector", variant: variant}
	x.Plan = r.genPlan(from, variant)
	r.mu.Lock()
	r.results = append(r.results, x)
	r.mu.Unlock()
}

var frameRe = regexp.MustCompile(`github\.com/tencent/goom[^\s]*`)

func raceKey(report string) string {
	m := frameRe.FindAllString(report, -1)
	var k []string
	for _, f := range m {
		if strings.Contains(f, "verifsim") {
			continue
		}
		k = append(k, strings.TrimSuffix(strings.TrimPrefix(f, "github.com/tencent/goom"), "()"))
		if len(k) == 2 {
			break
		}
	}
	return strings.Join(k, "|")
}

// ---------------------------------------------------------------------------------------------
// replay + minimisation

type replayFile struct {
	Property  string            `json:"property"`
	World     string            `json:"world"`
	Variant   string            `json:"variant"`
	RepoHead  string            `json:"repo_head"`
	RepoDirty string            `json:"repo_diff_hash"`
	Signature string            `json:"signature"`
	Message   string            `json:"message"`
	At        string            `json:"at"`
	Seed      uint64            `json:"seed"`
	Minimised bool              `json:"minimised"`
	Plans     []json.RawMessage `json:"plans"`
}

// sigClass: memory-corruption symptoms (crashes, faults) vary with heap layout between a batch
// and a fresh process, so every crash signature belongs to one class; all other signatures are
// their own class.
func sigClass(sig string) string {
	if strings.HasPrefix(sig, "crash/") {
		return "crash"
	}
	if strings.HasPrefix(sig, "liveness/") {
		return "liveness" // a leaked lock shows as relock / deadlock inside a run or as a blocked driver outside
	}
	return sig
}

// replayPlan runs one explicit plan in a fresh child and returns its result (nil on crash, with
// the crash signature).
func (r *runner) replayPlan(p json.RawMessage, variant string) *result {
	id := r.nextProc()
	pf := filepath.Join(r.scratch, fmt.Sprintf("p%d.json", id))
	os.WriteFile(pf, p, 0644)
	defer os.Remove(pf)
	args := []string{"run", "-plan", pf}
	if r.known != "" {
		args = append(args, "-known", r.known)
	}
	res, crashed, stderr, _ := r.runChild(args, variant)
	if variant == "race" {
		if g, _ := parseRaces(stderr); len(g) > 0 {
			return &result{Verdict: "violation", Sig: "race/" + raceKey(g[0]), Msg: g[0], variant: variant}
		}
	}
	if crashed != nil || len(res) == 0 {
		sig, tail := crashSig(stderr)
		return &result{Verdict: "violation", Sig: sig, Msg: tail, variant: variant}
	}
	return res[len(res)-1]
}

func withDirectives(p json.RawMessage, fired []directive) json.RawMessage {
	var m map[string]interface{}
	json.Unmarshal(p, &m)
	m["use_directives"] = true
	if fired == nil {
		fired = []directive{}
	}
	m["directives"] = fired
	b, _ := json.Marshal(m)
	return b
}

func planTasks(p json.RawMessage) (map[string]interface{}, [][]interface{}) {
	var m map[string]interface{}
	dec := json.NewDecoder(bytes.NewReader(p))
	dec.UseNumber()
	dec.Decode(&m)
	var tasks [][]interface{}
	if ts, ok := m["tasks"].([]interface{}); ok {
		for _, t := range ts {
			tm := t.(map[string]interface{})
			ops, _ := tm["ops"].([]interface{})
			tasks = append(tasks, ops)
		}
	}
	return m, tasks
}

func rebuild(m map[string]interface{}, tasks [][]interface{}) json.RawMessage {
	ts := m["tasks"].([]interface{})
	for i, t := range ts {
		t.(map[string]interface{})["ops"] = tasks[i]
	}
	b, _ := json.Marshal(m)
	return b
}

// minimise shrinks the plan (drop operations, then directives) while the same signature persists.
func (r *runner) minimise(p json.RawMessage, sig, variant string, budget int) (json.RawMessage, int) {
	runs := 0
	same := func(c json.RawMessage) bool {
		runs++
		x := r.replayPlan(c, variant)
		return x != nil && x.Verdict == "violation" && sigClass(x.Sig) == sigClass(sig)
	}
	cur := p
	// 1. ops, per task, ddmin-style with halving chunk sizes
	m, tasks := planTasks(cur)
	for ti := range tasks {
		chunk := len(tasks[ti]) / 2
		for chunk >= 1 && runs < budget {
			i := 0
			for i < len(tasks[ti]) && runs < budget {
				end := i + chunk
				if end > len(tasks[ti]) {
					end = len(tasks[ti])
				}
				cand := make([][]interface{}, len(tasks))
				copy(cand, tasks)
				cand[ti] = append(append([]interface{}{}, tasks[ti][:i]...), tasks[ti][end:]...)
				cj := rebuild(m, cand)
				if same(cj) {
					tasks = cand
					cur = cj
				} else {
					i = end
				}
			}
			chunk /= 2
		}
	}
	cur = rebuild(m, tasks)
	// 2. directives
	var pm map[string]interface{}
	dec := json.NewDecoder(bytes.NewReader(cur))
	dec.UseNumber()
	dec.Decode(&pm)
	if ds, ok := pm["directives"].([]interface{}); ok && len(ds) > 0 {
		chunk := len(ds) / 2
		if chunk < 1 {
			chunk = 1
		}
		for chunk >= 1 && runs < budget {
			i := 0
			for i < len(ds) && runs < budget {
				end := i + chunk
				if end > len(ds) {
					end = len(ds)
				}
				cand := append(append([]interface{}{}, ds[:i]...), ds[end:]...)
				pm["directives"] = cand
				cj, _ := json.Marshal(pm)
				if same(cj) {
					ds = cand
					cur = cj
				} else {
					i = end
				}
			}
			chunk /= 2
		}
		pm["directives"] = ds
		cur, _ = json.Marshal(pm)
	}
	return cur, runs
}

func opPattern(p json.RawMessage) string {
	_, tasks := planTasks(p)
	var parts []string
	for _, ops := range tasks {
		var ks []string
		for _, o := range ops {
			om := o.(map[string]interface{})
			k, _ := om["k"].(string)
			if n, ok := om["n"]; ok && k == "bad" {
				k += fmt.Sprint(n)
			}
			if f, ok := om["f"]; ok && k == "apply" && fmt.Sprint(f) == "1" {
				k += "+origin"
			}
			ks = append(ks, k)
		}
		parts = append(parts, strings.Join(ks, ","))
	}
	return strings.Join(parts, " || ")
}

func gitInfo() (string, string) {
	head, _ := exec.Command("git", "-C", "/repo", "rev-parse", "HEAD").Output()
	diff, _ := exec.Command("git", "-C", "/repo", "diff", "HEAD").Output()
	h := uint64(1469598103934665603)
	for _, b := range diff {
		h ^= uint64(b)
		h *= 1099511628211
	}
	return strings.TrimSpace(string(head)), fmt.Sprintf("%016x", h)
}

func loadKnown() []knownFinding {
	b, err := os.ReadFile(filepath.Join(verifDir, "known_findings.json"))
	if err != nil {
		return nil
	}
	var f struct {
		Findings []knownFinding `json:"findings"`
	}
	if err := json.Unmarshal(b, &f); err != nil {
		die(2, "known_findings.json: %v", err)
	}
	return f.Findings
}

// ---------------------------------------------------------------------------------------------

func main() {
	if len(os.Args) < 2 {
		die(2, "usage: vcheck <PROP>|selftest ... [--tier quick|thorough] [--replay file]")
	}
	prop := os.Args[1]
	tier := os.Getenv("VERIF_TIER")
	if tier == "" {
		tier = "quick"
	}
	replay := ""
	plansOverride := 0
	keep := false
	for i := 2; i < len(os.Args); i++ {
		switch os.Args[i] {
		case "--tier":
			i++
			tier = os.Args[i]
		case "--replay":
			i++
			replay = os.Args[i]
		case "--plans":
			i++
			plansOverride, _ = strconv.Atoi(os.Args[i])
		case "--keep":
			keep = true
		}
	}
	if prop == "selftest" {
		selftest(os.Args[2:])
		return
	}
	cfg, ok := props[prop]
	if !ok {
		die(2, "unknown property %s", prop)
	}
	seed := uint64(1)
	if s := os.Getenv("VERIF_SEED"); s != "" {
		v, err := strconv.ParseUint(s, 10, 64)
		if err != nil {
			die(2, "VERIF_SEED: %v", err)
		}
		seed = v
	}
	fmt.Printf("vcheck: property=%s tier=%s VERIF_SEED=%d\n", prop, tier, seed)
	t0 := time.Now()

	scratch, err := os.MkdirTemp(outDir, "run-"+prop+"-")
	if err != nil {
		os.MkdirAll(outDir, 0755)
		scratch, err = os.MkdirTemp(outDir, "run-"+prop+"-")
		if err != nil {
			die(2, "scratch: %v", err)
		}
	}
	if !keep {
		defer os.RemoveAll(scratch)
	}
	r := &runner{prop: prop, tier: tier, scratch: scratch, bins: map[string]string{}}
	r.bins["plain"] = filepath.Join(scratch, "simnode")
	if err := build(false, r.bins["plain"]); err != nil {
		os.RemoveAll(scratch)
		die(2, "build failed:\n%v", err)
	}
	nPlain, nRace := cfg.Quick, cfg.RaceQ
	if tier == "thorough" {
		nPlain, nRace = cfg.Thorough, cfg.RaceT
	}
	if plansOverride > 0 {
		nPlain = plansOverride
		if nRace > 0 {
			nRace = plansOverride / 8
		}
	}
	if nRace > 0 || replay != "" {
		r.bins["race"] = filepath.Join(scratch, "simnode-race")
		if nRace > 0 {
			if err := build(true, r.bins["race"]); err != nil {
				os.RemoveAll(scratch)
				die(2, "race build failed:\n%v", err)
			}
		}
	}
	var extraVariants []string
	for v := range cfg.Extra {
		extraVariants = append(extraVariants, v)
	}
	sort.Strings(extraVariants)
	for _, v := range extraVariants {
		r.bins[v] = filepath.Join(scratch, "simnode-"+v)
		if err := buildVariant(v, r.bins[v]); err != nil {
			// an alternative link mode that does not link offline is dropped with a note, not an error
			fmt.Printf("vcheck: build variant %s unavailable, skipped: %v\n", v, err)
			delete(r.bins, v)
		}
	}
	known := loadKnown()
	var childKnown []string
	for _, k := range known {
		if k.appliesTo(prop) && k.Status == "open" && k.InChild {
			childKnown = append(childKnown, k.ID)
		}
	}
	r.known = strings.Join(childKnown, ",")

	if replay != "" {
		os.Exit(doReplay(r, prop, replay))
	}

	// witness plans of open known findings run first, each in a fresh child
	witnessCode := 0
	for i := range known {
		k := &known[i]
		if k.Status != "open" || k.Property != prop || len(k.Witness) == 0 {
			continue
		}
		x := r.replayPlan(k.Witness, "plain")
		switch {
		case x == nil || x.Verdict == "ok":
			fmt.Printf("vcheck: witness of known finding %s no longer fails on this tree\n", k.ID)
		case x.Verdict == "violation":
			if ok, _ := regexp.MatchString(k.SigRe, x.Sig); ok {
				fmt.Printf("KNOWN-FINDING: property=%s %s [%s] (witness plan from known_findings.json: %s)\n", prop, k.What, k.ID, firstLines(x.Msg, 2))
				r.witnessSeen = append(r.witnessSeen, k.ID)
			} else {
				os.MkdirAll(filepath.Join(outDir, "replays"), 0755)
				head, dirty := gitInfo()
				rf := replayFile{Property: prop, World: cfg.World, Variant: "plain", RepoHead: head, RepoDirty: dirty, Signature: x.Sig, Message: x.Msg, At: x.At, Plans: []json.RawMessage{k.Witness}}
				path := filepath.Join(outDir, "replays", fmt.Sprintf("%s-witness-%s.json", prop, k.ID))
				bb, _ := json.MarshalIndent(rf, "", " ")
				os.WriteFile(path, bb, 0644)
				fmt.Printf("witness of %s fails differently: %s\n  %s\nVIOLATION property=%s replay=%s\n", k.ID, x.Sig, firstLines(x.Msg, 6), prop, path)
				witnessCode = 1
			}
		default:
			fmt.Fprintf(os.Stderr, "vcheck: witness of %s: %s %s\n", k.ID, x.Verdict, x.Msg)
			witnessCode = 2
		}
	}
	// fan out
	base := seed * 1000000000
	var jobs []job
	chunk := cfg.Chunk
	if chunk == 0 {
		chunk = 50
	}
	if cfg.PerProc {
		chunk = 1
	}
	for s := 0; s < nPlain; s += chunk {
		n := chunk
		if s+n > nPlain {
			n = nPlain - s
		}
		jobs = append(jobs, job{base + uint64(s), n, "plain"})
	}
	for s := 0; s < nRace; s += chunk {
		n := chunk
		if s+n > nRace {
			n = nRace - s
		}
		// race variant explores its own seed block (offset) so that both builds add coverage
		jobs = append(jobs, job{base + 500000000 + uint64(s), n, "race"})
	}
	for vi, v := range extraVariants {
		if _, ok := r.bins[v]; !ok {
			continue
		}
		n := cfg.Extra[v]
		if tier == "thorough" {
			n *= 20
		}
		for s := 0; s < n; s += chunk {
			c := chunk
			if s+c > n {
				c = n - s
			}
			jobs = append(jobs, job{base + 700000000 + uint64(vi)*50000000 + uint64(s), c, v})
		}
	}
	var envVariants []string
	for v := range cfg.EnvVar {
		envVariants = append(envVariants, v)
	}
	sort.Strings(envVariants)
	for _, v := range envVariants {
		n := cfg.EnvVar[v]
		if tier == "thorough" {
			n *= 20
		}
		if n > nPlain {
			n = nPlain
		}
		for s := 0; s < n; s += chunk {
			c := chunk
			if s+c > n {
				c = n - s
			}
			jobs = append(jobs, job{base + uint64(s), c, v}) // same seeds as the plain block
		}
	}
	jc := make(chan job)
	var wg sync.WaitGroup
	workers := 16
	for w := 0; w < workers; w++ {
		wg.Add(1)
		go func() {
			defer wg.Done()
			for j := range jc {
				sample := 0
				if j.seed0 == base {
					sample = 3
				}
				r.runJob(j, sample)
			}
		}()
	}
	for _, j := range jobs {
		jc <- j
	}
	close(jc)
	wg.Wait()

	code := finish(r, prop, tier, seed, cfg, known, t0)
	if witnessCode > code {
		code = witnessCode
	}
	if !keep {
		os.RemoveAll(scratch)
	}
	os.Exit(code)
}

func doReplay(r *runner, prop, path string) int {
	b, err := os.ReadFile(path)
	if err != nil {
		die(2, "replay: %v", err)
	}
	var rf replayFile
	if err := json.Unmarshal(b, &rf); err != nil {
		die(2, "replay: %v", err)
	}
	variant := rf.Variant
	if variant == "" {
		variant = "plain"
	}
	if variant == "race" {
		if err := build(true, r.bins["race"]); err != nil {
			die(2, "race build failed:\n%v", err)
		}
	}
	pl, _ := json.Marshal(map[string]interface{}{"plans": rf.Plans})
	x := r.replayPlan(pl, variant)
	fmt.Printf("replay: verdict=%s sig=%s\n%s\n", x.Verdict, x.Sig, x.Msg)
	if x.Verdict == "violation" && sigClass(x.Sig) == sigClass(rf.Signature) {
		fmt.Printf("VIOLATION property=%s replay=%s\n", prop, path)
		return 1
	}
	if x.Verdict == "violation" {
		fmt.Printf("replay produced a different violation (recorded: %s)\n", rf.Signature)
		fmt.Printf("VIOLATION property=%s replay=%s\n", prop, path)
		return 1
	}
	fmt.Println("replay: the recorded violation does not reproduce on this tree")
	return 0
}

type evidence struct {
	PropertyID  string                 `json:"property_id"`
	Tier        string                 `json:"tier"`
	Seed        uint64                 `json:"seed"`
	Level       string                 `json:"level"`
	Coverage    map[string]interface{} `json:"coverage"`
	Assumptions []string               `json:"assumptions"`
	WallS       float64                `json:"wall_s"`
	Violations  int                    `json:"violations"`
}

func finish(r *runner, prop, tier string, seed uint64, cfg propCfg, known []knownFinding, t0 time.Time) int {
	harnessTrouble := len(r.harness) > 0
	if harnessTrouble {
		anyViolation := false
		for _, x := range r.results {
			if x.Verdict == "violation" {
				anyViolation = true
			}
		}
		fmt.Fprintf(os.Stderr, "vcheck: HARNESS TROUBLE (%d):\n%s\n", len(r.harness), r.harness[0])
		if !anyViolation {
			writeEvidence(r, prop, tier, seed, cfg, t0, 0, nil, []string{"harness trouble: run is inconclusive"})
			return 2
		}
		// violations found by other children are still confirmed and reported below; the run as a
		// whole stays flagged (exit 2 unless a VIOLATION line is printed)
	}
	if len(cfg.EnvVar) > 0 {
		plainTrans := map[uint64]*result{}
		for _, x := range r.results {
			if x.variant == "plain" && x.Verdict == "ok" {
				plainTrans[x.Seed] = x
			}
		}
		for _, x := range r.results {
			if strings.HasPrefix(x.variant, "env:") && x.Verdict == "ok" {
				if p, ok := plainTrans[x.Seed]; ok && p.Trans != x.Trans {
					x.Verdict = "violation"
					x.Sig = "log/transcript-differs-across-processes"
					x.Msg = fmt.Sprintf("seed %d: transcript hash %s in the default environment, %s under %s", x.Seed, p.Trans, x.Trans, x.variant)
					x.At = x.variant
					if x.Plan == nil {
						x.Plan = r.genPlan(x.Seed, x.variant)
					}
				}
			}
		}
	}
	var viol []*result
	okN, trunc := 0, 0
	for _, x := range r.results {
		switch x.Verdict {
		case "ok":
			okN++
		case "truncated":
			trunc++
		case "harness":
			fmt.Fprintf(os.Stderr, "vcheck: HARNESS PANIC seed=%d: %s\n", x.Seed, x.Msg)
			writeEvidence(r, prop, tier, seed, cfg, t0, 0, nil, []string{"harness panic: run is inconclusive"})
			return 2
		case "violation":
			viol = append(viol, x)
		}
	}
	// group by signature, smallest plan first
	bySig := map[string][]*result{}
	for _, v := range viol {
		bySig[v.variant+"|"+v.Sig] = append(bySig[v.variant+"|"+v.Sig], v)
	}
	var sigs []string
	for s := range bySig {
		sigs = append(sigs, s)
	}
	sort.Strings(sigs)
	head, dirty := gitInfo()
	os.MkdirAll(filepath.Join(outDir, "replays"), 0755)
	exit := 0
	unconfirmed := false
	knownSeen := append([]string(nil), r.witnessSeen...)
	reported := 0
	for _, s := range sigs {
		group := bySig[s]
		sort.Slice(group, func(i, j int) bool { return len(group[i].Plan) < len(group[j].Plan) })
		v := group[0]
		if reported >= 4 {
			fmt.Printf("(further violation class not minimised: %s, %d plans, e.g. seed %d)\n", v.Sig, len(group), v.Seed)
			exit = 1
			continue
		}
		if v.Plan == nil {
			fmt.Fprintf(os.Stderr, "vcheck: violation without plan (seed %d, %s)\n", v.Seed, v.Sig)
			exit = 2
			continue
		}
		// confirm: replay the explicit plan + fired directives in a fresh process
		cand := withDirectives(v.Plan, v.Fired)
		x := r.replayPlan(cand, v.variant)
		final := cand
		confirmed := x != nil && x.Verdict == "violation" && sigClass(x.Sig) == sigClass(v.Sig)
		if !confirmed {
			// try the seeded (hash-walk) form alone
			x2 := r.replayPlan(v.Plan, v.variant)
			if x2 != nil && x2.Verdict == "violation" && sigClass(x2.Sig) == sigClass(v.Sig) {
				confirmed = true
				final = v.Plan
				x = x2
			}
		}
		if !confirmed && x != nil && x.Verdict == "violation" {
			// a fresh process shows a different violation for the same plan: still a violation of
			// this property (use-after-free symptoms depend on heap layout); report what replays
			confirmed = true
			v.Sig = x.Sig
		}
		if !confirmed && v.BatchFirst > 0 && v.BatchFirst < v.Seed && v.Seed-v.BatchFirst <= 256 {
			// goom keeps process-global state (stale patch-table entries, size cache, bump pointer):
			// replay the plan together with its predecessors in the same process
			var plans []json.RawMessage
			for s := v.BatchFirst; s <= v.Seed; s++ {
				if p := r.genPlan(s, v.variant); p != nil {
					plans = append(plans, p)
				}
			}
			pl, _ := json.Marshal(map[string]interface{}{"plans": plans})
			if xb := r.replayPlan(pl, v.variant); xb != nil && xb.Verdict == "violation" && sigClass(xb.Sig) == sigClass(v.Sig) {
				// shrink the prefix from the front
				for len(plans) > 1 {
					cand, _ := json.Marshal(map[string]interface{}{"plans": plans[1:]})
					if xc := r.replayPlan(cand, v.variant); xc != nil && xc.Verdict == "violation" && sigClass(xc.Sig) == sigClass(v.Sig) {
						plans = plans[1:]
					} else {
						break
					}
				}
				rf := replayFile{Property: prop, World: v.World, Variant: v.variant, RepoHead: head, RepoDirty: dirty, Signature: xb.Sig,
					Message: xb.Msg, At: xb.At, Seed: v.Seed, Minimised: false, Plans: plans}
				name := fmt.Sprintf("%s-%s-%d.json", prop, sanitize(v.Sig), v.Seed)
				path := filepath.Join(outDir, "replays", name)
				bb, _ := json.MarshalIndent(rf, "", " ")
				os.WriteFile(path, bb, 0644)
				reported++
				fmt.Printf("violation class %s: %d plan(s); reproduces only after %d predecessor plan(s) in the same process (process-global goom state)\n  at %s\n  %s\n", v.Sig, len(group), len(plans)-1, xb.At, firstLines(xb.Msg, 12))
				fmt.Printf("VIOLATION property=%s replay=%s\n", prop, path)
				exit = 1
				continue
			}
		}
		if !confirmed {
			got := "nothing"
			if x != nil {
				got = x.Verdict + " " + x.Sig
			}
			fmt.Fprintf(os.Stderr, "vcheck: violation %s (seed %d) did not reproduce in a fresh process (got %s): treated as harness trouble\n", v.Sig, v.Seed, got)
			unconfirmed = true
			continue
		}
		mini, runs := r.minimise(final, v.Sig, v.variant, 160)
		pat := opPattern(mini)
		// last confirmation run of the minimised file (fresh process)
		xm := r.replayPlan(mini, v.variant)
		if xm == nil || xm.Verdict != "violation" || sigClass(xm.Sig) != sigClass(v.Sig) {
			mini = final
			xm = x
			pat = opPattern(mini)
		}
		// known finding?
		var kf *knownFinding
		for i := range known {
			k := &known[i]
			if !k.appliesTo(prop) || k.Status != "open" {
				continue
			}
			if ok, _ := regexp.MatchString(k.SigRe, v.Sig); !ok {
				continue
			}
			if k.PlanRe != "" {
				if ok, _ := regexp.MatchString(k.PlanRe, pat); !ok {
					continue
				}
			}
			kf = k
			break
		}
		rf := replayFile{Property: prop, World: v.World, Variant: v.variant, RepoHead: head, RepoDirty: dirty, Signature: v.Sig,
			Message: xm.Msg, At: xm.At, Seed: v.Seed, Minimised: true, Plans: []json.RawMessage{mini}}
		name := fmt.Sprintf("%s-%s-%d.json", prop, sanitize(v.Sig), v.Seed)
		path := filepath.Join(outDir, "replays", name)
		b, _ := json.MarshalIndent(rf, "", " ")
		os.WriteFile(path, b, 0644)
		if kf != nil {
			fmt.Printf("KNOWN-FINDING: property=%s %s [%s] (witness seed %d, pattern %q, replay %s)\n", prop, kf.What, kf.ID, v.Seed, pat, path)
			knownSeen = append(knownSeen, kf.ID)
			continue
		}
		reported++
		fmt.Printf("violation class %s: %d plan(s); minimised in %d runs to pattern %q\n  at %s\n  %s\n", v.Sig, len(group), runs, pat, xm.At, firstLines(xm.Msg, 12))
		fmt.Printf("VIOLATION property=%s replay=%s\n", prop, path)
		exit = 1
	}
	// known findings whose tolerance was used inside children
	for _, x := range r.results {
		for _, id := range x.Known {
			dup := false
			for _, k := range knownSeen {
				if k == id {
					dup = true
				}
			}
			if !dup {
				knownSeen = append(knownSeen, id)
				for _, k := range known {
					if k.ID == id {
						fmt.Printf("KNOWN-FINDING: property=%s %s [%s] (witness seed %d)\n", prop, k.What, k.ID, x.Seed)
					}
				}
			}
		}
	}
	// a confirmed violation (replay file written) decides the run; classes that did not reproduce
	// next to it are by-products (a memory-corrupting change crashes in many non-repeatable ways)
	if (harnessTrouble || unconfirmed) && exit == 0 {
		exit = 2
	}
	writeEvidence(r, prop, tier, seed, cfg, t0, len(viol), knownSeen, nil)
	fmt.Printf("vcheck: %s %s: %d ok, %d violation(s) in %d class(es), %d truncated, %d child processes, %.1fs\n", prop, tier, okN, len(viol), len(sigs), trunc, r.procs, time.Since(t0).Seconds())
	return exit
}

func firstLines(s string, n int) string {
	ls := strings.Split(s, "\n")
	if len(ls) > n {
		ls = ls[:n]
	}
	return strings.Join(ls, "\n  ")
}

func sanitize(s string) string {
	s = regexp.MustCompile(`[^A-Za-z0-9_.-]+`).ReplaceAllString(s, "_")
	if len(s) > 60 {
		s = s[:60]
	}
	return s
}

func writeEvidence(r *runner, prop, tier string, seed uint64, cfg propCfg, t0 time.Time, nviol int, knownSeen []string, notes []string) {
	distinct := map[string]bool{}
	transDistinct := map[string]bool{}
	switchSeqs := map[uint64]bool{}
	var evals, ops, checks int
	var events uint64
	faults := map[string]int{}
	preempts := map[string]uint64{}
	sites := map[string]uint64{}
	probes := map[string]int{}
	gc, grow, trunc, raceRuns := 0, 0, 0, 0
	var samples []interface{}
	for _, x := range r.results {
		evals++
		ops += x.Ops
		checks += x.Checks
		events += x.Stats.Events
		gc += x.Stats.GC
		grow += x.Stats.Grow
		if x.variant == "race" {
			raceRuns++
		}
		if x.Verdict == "truncated" {
			trunc++
		}
		if x.Nontriv && x.Checks > 0 {
			distinct[x.CaseHash] = true
		}
		transDistinct[x.Trans] = true
		if x.Stats.Switches > 0 {
			switchSeqs[x.Stats.SwitchHash] = true
		}
		for k, v := range x.Stats.Faults {
			faults[k] += v
		}
		for k, v := range x.Stats.Preempts {
			preempts[k] += v
		}
		for k, v := range x.Stats.Sites {
			sites[k] += v
		}
		for k, v := range x.Probes {
			probes[k] += v
		}
		if x.Verdict == "ok" && x.Plan != nil && len(samples) < 3 {
			var pm interface{}
			json.Unmarshal(x.Plan, &pm)
			samples = append(samples, map[string]interface{}{"seed": x.Seed, "plan": pm, "fired_events": x.Fired, "oracle_evaluations": x.Checks})
		}
	}
	if len(samples) == 0 {
		samples = append(samples, "no passing plan was sampled in this run")
	}
	wall := time.Since(t0).Seconds()
	if evals == 0 {
		evals = 0
	}
	cov := map[string]interface{}{
		"evaluations":                       evals,
		"distinct_nontrivial":               len(distinct),
		"rule":                              cfg.Rule,
		"samples":                           samples,
		"operations_executed":               ops,
		"oracle_evaluations":                checks,
		"logical_events_simulated":          events,
		"simulated_time_note":               "goom has no clock; simulated time is the scheduler's global event sequence number",
		"runs_per_hour":                     int(float64(evals) / wall * 3600),
		"seeds_per_hour":                    int(float64(evals) / wall * 3600),
		"child_processes":                   r.procs,
		"race_build_runs":                   raceRuns,
		"truncated_runs":                    trunc,
		"distinct_transcripts":              len(transDistinct),
		"distinct_context_switch_sequences": len(switchSeqs),
		"events_fired":                      map[string]interface{}{"gc": gc, "stack_growth": grow, "faults_by_kind": faults, "preemptions_by_site": preempts},
		"yield_sites_reached":               sites,
		"probes":                            probes,
		"components":                        map[string]string{"real": "all goom packages, Go runtime and GC, kernel mprotect/mmap/read, CPU executing patched text", "simulated": "task choice at hook points, GC instants, stack growth, injected errno / read faults, logging knobs"},
		"known_findings_seen":               knownSeen,
		"exhaustive":                        false,
	}
	if len(notes) > 0 {
		cov["notes"] = notes
	}
	ev := evidence{PropertyID: prop, Tier: tier, Seed: seed, Level: cfg.Level, Coverage: cov, Assumptions: cfg.Assume, WallS: wall, Violations: nviol}
	evDir := filepath.Join(verifDir, "evidence")
	if d := os.Getenv("VERIF_EVIDENCE_DIR"); d != "" {
		evDir = d // selftests only
	}
	os.MkdirAll(evDir, 0755)
	b, _ := json.MarshalIndent(ev, "", " ")
	os.WriteFile(filepath.Join(evDir, prop+".json"), b, 0644)
}
