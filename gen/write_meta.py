#!/usr/bin/env python3
"""Writes /verif/seeded/<id>/meta.json for one wave from a table of (id -> needs_to_manifest, history)
plus my confirmation log (confirm.txt) and the latest evaluation line (out/eval-<id>.log via
gen/eval_seeded.sh). usage: write_meta.py <table.json>"""
import json, os, re, sys
tab = json.load(open(sys.argv[1]))
for sid, t in tab["seeds"].items():
    d = f"/verif/seeded/{sid}"
    conf = open(f"{d}/confirm.txt").read()
    res = re.findall(r"RESULT \S+(?: \([^)]*\))? without=(\d+) with=(\d+)", conf)
    r0, r1 = map(int, res[-1])
    kept = "stable passes kept: 45/45" in conf
    ev = ""
    p = f"/verif/out/eval-{sid}.log"
    if os.path.exists(p):
        out = open(p).read()
        m = re.search(r"^violation class.*$", out, re.M)
        prop = t.get("prop", sid[:3])
        mm = re.search(r"VIOLATION property=(C\d\d)", out)
        caught = mm is not None
        ev = (f"{sid}: CAUGHT by {mm.group(1)}  " + (m.group(0)[:200] if m else "")) if caught else f"{sid}: MISSED by every check that was run"
    meta = {
        "property": t.get("prop", sid[:3]), "wave": tab["wave"], "origin": tab["origin"],
        "needs_to_manifest": t["needs"],
        "files": {"patch": "patch.diff", "demonstration": "demo/", "agent_notes": "notes.md", "my_confirmation_log": "confirm.txt"},
        "confirmed_by_me": {"how": t.get("how", "gen/confirm_seeded.sh (fresh worktree of /repo HEAD, demo without / with the patch, go build, existing suite vs BASELINE.json stable_pass)"),
                            "demo_exit_without_patch": r0, "demo_exit_with_patch": r1, "stable_passes_kept": kept},
        "check_result": ev, "history": t["history"], "how_run": (f"gen/eval_seeded_any.sh {sid}" if "prop" in t else f"gen/eval_seeded.sh {sid}"),
    }
    json.dump(meta, open(f"{d}/meta.json", "w"), indent=1)
    print(sid, r0, r1, kept, ev[:90])
