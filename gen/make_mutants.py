#!/usr/bin/env python3
"""Builds /verif/mutants/*.diff: deliberate property-breaking edits of goom (and negative controls)
used by `vcheck selftest mutants`. Each entry is a list of (file, old, new) replacements applied to a
pristine checkout of /repo HEAD in a temporary worktree; the resulting `git diff` is the mutant.
File name: <PROP>[+PROP]-<name>.diff, negative controls start with neg-."""
import os, subprocess, tempfile, shutil, sys

OUT = os.path.join(os.path.dirname(os.path.abspath(__file__)), '..', 'mutants')

M = {
 # ---------------- C01
 'C01+C02-jump-to-code-pointer': [('internal/patch/patch.go', 'replacementInAddr := (uintptr)(bytecode.GetPtr(p.replacementValue))', 'replacementInAddr := p.replacementPtr')],
 'C01-patches-not-retained': [('internal/patch/patch.go', '\tpatches[p.originPtr] = p\n\tsimhook.Yield', '\tpatches[p.originPtr] = &patch{originPtr: p.originPtr}\n\tsimhook.Yield')],
 # ---------------- C02
 'C02-unpatch-12-bytes': [('internal/patch/guard.go', 'memory.WriteTo(g.origin, g.originBytes); err != nil {\n\t\t\tlogger.Errorf("Unpatch', 'memory.WriteTo(g.origin, g.originBytes[:12]); err != nil {\n\t\t\tlogger.Errorf("Unpatch')],
 'C02-reapply-captures-patched-bytes': [('internal/patch/patch.go', '\tif _, ok := patches[p.originPtr]; ok {\n\t\tunpatchValue(p.originPtr)\n\t}', '\tif _, ok := patches[p.originPtr]; ok {\n\t\tdelete(patches, p.originPtr)\n\t}'),
                                        ('internal/patch/monkey_amd64.go', 'return origin[0] == nopOpcode', 'return false')],
 'C02+C06-cached-method-cancel-skips-unexported': [('cache.go', '\tfor _, v := range m.mCache {\n\t\tv.Cancel()\n\t}\n\tfor _, v := range m.umCache {\n\t\tv.Cancel()\n\t}', '\tfor _, v := range m.mCache {\n\t\tv.Cancel()\n\t}')],
 'C02-cancel-forgets-guard': [('mocker.go', '\tif m.guard != nil {\n\t\tm.guard.Cancel()\n\t}\n\tm.when = nil', '\tif m.guard != nil && m.when == nil {\n\t\tm.guard.Cancel()\n\t}\n\tm.when = nil')],
 # ---------------- C03
 'C03-widened-branch-off-by-opcode-growth': [('internal/bytecode/addr.go', '\t\t\tLittleEndian.PutInt32(addr, (int32)(int8(val))+int32(add)-\n\t\t\t\tint32(len(addr)-addrLen)-int32(len(opsNew)-len(ops))) // 新增了4个字节,需要减去\n\t\t\tops = opsNew\n\t\t\treturn toInst(ops, addr)\n\t\t}\n\t\tpanic("address overflow:" + hex.EncodeToString(ops) + ", addr:" + hex.EncodeToString(addr[:addrLen]))\n\tcase 2:', '\t\t\tLittleEndian.PutInt32(addr, (int32)(int8(val))+int32(add)-\n\t\t\t\tint32(len(addr)-addrLen)) // 新增了4个字节,需要减去\n\t\t\tops = opsNew\n\t\t\treturn toInst(ops, addr)\n\t\t}\n\t\tpanic("address overflow:" + hex.EncodeToString(ops) + ", addr:" + hex.EncodeToString(addr[:addrLen]))\n\tcase 2:')],
 'C03-backjump-check-disabled': [('internal/patch/fix_addr_amd64.go', '\t\tif ((relativeAddr)+pos+ins.Len < to) &&\n\t\t\t((relativeAddr)+pos+ins.Len > 0) {', '\t\tif ((relativeAddr)+pos+ins.Len < to) &&\n\t\t\t((relativeAddr)+pos+ins.Len > to) {')],
 'C03-jump-back-one-byte-early': [('internal/patch/fix_origin_amd64.go', '\t\t\torigin+(uintptr(fixedDataSize)))', '\t\t\torigin+(uintptr(fixedDataSize))-1)')],
 'C03-trailing-immediate-dropped-again': [('internal/patch/fix_addr_amd64.go', '\t\t\treturn append(result, block[offset+ins.PCRel:pos+ins.Len]...)', '\t\t\treturn result')],
 # ---------------- C04
 'C04-last-match-wins': [('when.go', '\t\tfor _, c := range w.matches {\n\t\t\tif c.Match(args1) {\n\t\t\t\treturn c.Result()\n\t\t\t}\n\t\t}', '\t\tfor i := len(w.matches) - 1; i >= 0; i-- {\n\t\t\tif c := w.matches[i]; c.Match(args1) {\n\t\t\t\treturn c.Result()\n\t\t\t}\n\t\t}')],
 'C04-receiver-not-skipped': [('matcher.go', 'func (c *DefaultMatcher) Match(args []reflect.Value) bool {\n\tif c.isMethod {\n\t\targs = args[1:]\n\t}', 'func (c *DefaultMatcher) Match(args []reflect.Value) bool {\n\tif c.isMethod && len(args) > 2 {\n\t\targs = args[1:]\n\t}')],
 'C04-default-before-clauses': [('when.go', 'func (w *When) invoke(args1 []reflect.Value) (results []reflect.Value) {\n\tif len(w.matches) != 0 {', 'func (w *When) invoke(args1 []reflect.Value) (results []reflect.Value) {\n\tif len(w.matches) != 0 && w.defaultReturns == nil {')],
 'C04-variadic-fixed-params-expanded-again': [('matcher.go', '\t\t\tif j < len(args)-1 {\n\t\t\t\t// 可变参数之前的固定参数无需展开\n\t\t\t\texpandArgs = append(expandArgs, v)\n\t\t\t\tcontinue\n\t\t\t}', '\t\t\tif j < len(args)-2 {\n\t\t\t\t// 可变参数之前的固定参数无需展开\n\t\t\t\texpandArgs = append(expandArgs, v)\n\t\t\t\tcontinue\n\t\t\t}')],
 # ---------------- C05
 'C05-cursor-clamp-off-by-one': [('matcher.go', 'if length := len(c.results); curNum >= int32(length) {', 'if length := len(c.results); curNum > int32(length) {')],
 'C05-non-atomic-cursor': [('matcher.go', 'curNum := atomic.LoadInt32(&c.curNum)', 'curNum := c.curNum'), ('matcher.go', 'atomic.AddInt32(&c.curNum, 1)', 'c.curNum++'), ('matcher.go', '\t"sync/atomic"\n', '')],
 'C05-sequence-restarts': [('matcher.go', '\tif length := len(c.results); curNum >= int32(length) {\n\t\treturn c.results[length-1]\n\t}', '\tif length := len(c.results); curNum >= int32(length) {\n\t\tatomic.StoreInt32(&c.curNum, 1)\n\t\treturn c.results[length-1]\n\t}')],
 # ---------------- C06
 'C06-unexported-method-name-drops-star': [('mocker.go', '\tstructName := typeName(m.structDef)\n\tif strings.Contains(structName, "*") {\n\t\tstructName = fmt.Sprintf("(%s)", structName)\n\t}', '\tstructName := typeName(m.structDef)\n\tif strings.Contains(structName, "*") && len(name) > 3 {\n\t\tstructName = fmt.Sprintf("(%s)", structName)\n\t}')],
 # ---------------- C07
 'C07-method-index-off-for-later-methods': [('internal/proxy/interface.go', '\t\tif method == typ.Method(i).Name {\n\t\t\tfuncTabIndex = i\n\t\t\tbreak\n\t\t}', '\t\tif method == typ.Method(i).Name {\n\t\t\tfuncTabIndex = i\n\t\t\tif i > 3 {\n\t\t\t\tfuncTabIndex = i - 1\n\t\t\t}\n\t\t\tbreak\n\t\t}')],
 'C07-cancel-restores-data-word-only': [('internal/iface/make_interface.go', '\t*c.p.originIface = *c.p.originIfaceValue', '\tc.p.originIface.Data = c.p.originIfaceValue.Data')],
 'C07-apply-closures-not-retained': [('internal/iface/make_interface.go', '\t\tctx.p.keepAlive = append(ctx.p.keepAlive, apply)\n', '')],
 'C07-default-slot-zero': [('internal/iface/make_interface.go', '\tfor i := 0; i < hack.MaxMethod; i++ {\n\t\tfuncTabData[i] = notImplements\n\t}', '\tfor i := 0; i < 3; i++ {\n\t\tfuncTabData[i] = notImplements\n\t}')],
 # ---------------- C08
 'C08-origin-recorded-on-every-set': [('var.go', '\tif !m.originSaved {\n\t\tm.originValue = m.targetValue.Elem().Interface()\n\t\tm.originSaved = true\n\t}', '\tm.originValue = m.targetValue.Elem().Interface()\n\tm.originSaved = true')],
 'C08-cancel-restores-mock-value': [('var.go', '\t\t\ttarget.Set(reflect.ValueOf(m.originValue))', '\t\t\tif target.Kind() == reflect.Map {\n\t\t\t\ttarget.Set(reflect.ValueOf(m.mockValue))\n\t\t\t} else {\n\t\t\t\ttarget.Set(reflect.ValueOf(m.originValue))\n\t\t\t}')],
 # ---------------- C10
 'C10-prefix-match-fallback': [('internal/unexports2/symbols.go', '\tsymbol = table.LookupFunc(name)\n\tif symbol == nil {', '\tsymbol = table.LookupFunc(name)\n\tif symbol == nil && len(name) > 1 {\n\t\tsymbol = table.LookupFunc(name[:len(name)-1])\n\t}\n\tif symbol == nil {')],
 # was a negative control (both slides are 0 in a non-PIE internally linked build); since the extlink
 # variant (function slide 0x100, variable slide 0) it is a real mutant: caught under -linkmode=external
 'C10-var-alignment-mixed-into-funcs': [('internal/unexports2/unexports2.go', '\t\treturn uintptr(fn.Entry) + funcAlignment, nil', '\t\treturn uintptr(fn.Entry) + varAlignment + 16*(funcAlignment-varAlignment), nil')],
 'C10-load-error-swallowed': [('internal/unexports2/symbols.go', '\tsymbol = lookupSym(table, name)\n\tif symbol == nil {', '\tsymbol = lookupSym(table, name)\n\tif symbol == nil && len(table.Syms) == 0 {\n\t\tsymbol = &gosym.Sym{Value: 0x1000}\n\t}\n\tif symbol == nil {')],
 # ---------------- C11
 'C11-replacefunc-without-lock': [('internal/patch/patch.go', 'func (p *patch) replaceFunc() error {\n\tlock()\n\tdefer unlock()\n', 'func (p *patch) replaceFunc() error {\n')],
 'C11-write-drops-exec': [('internal/bytecode/memory/mwrite_amd64.go', 'mProtectCrossPage(addr, len(data), syscall.PROT_READ|syscall.PROT_WRITE|syscall.PROT_EXEC)', 'mProtectCrossPage(addr, len(data), syscall.PROT_READ|syscall.PROT_WRITE)')],
 # equivalent: GetFuncSize is only reached under patchesLock
 'neg-C11-funcsize-cache-written-after-unlock': [('internal/bytecode/func_amd64.go', '\tdefer func() {\n\t\tfuncSizeCache[start] = length\n\t\tfuncSizeReadLock.Unlock()\n\t}()', '\tdefer func() {\n\t\tfuncSizeReadLock.Unlock()\n\t\tfuncSizeCache[start] = length\n\t}()')],
 # equivalent: Guard.Apply touches only its own guard and WriteTo takes the memory lock itself
 'neg-C11-guard-apply-without-lock': [('internal/patch/guard.go', 'func (g *Guard) Apply() {\n\tlock()\n\tdefer unlock()\n', 'func (g *Guard) Apply() {\n')],
 # ---------------- C12
 'C12-cache-ignored-for-func': [('builder.go', '\tif mocker, ok := b.mockers[key]; ok && !mocker.Canceled() {\n\t\tb.reset2CurPkg()\n\t\treturn mocker.(*DefMocker)\n\t}', '\tif mocker, ok := b.mockers[key]; ok && mocker.Canceled() {\n\t\tb.reset2CurPkg()\n\t\treturn mocker.(*DefMocker)\n\t}')],
 'C12-apply-keeps-stale-when': [('mocker.go', 'func (m *DefMocker) Apply(callback interface{}) {\n\tm.doApply(callback)\n\tm.when = nil', 'func (m *DefMocker) Apply(callback interface{}) {\n\tm.doApply(callback)')],
 # ---------------- C13
 'C13-signature-counts-only': [('internal/patch/signature.go', '\t\tif typeA.In(i).Size() != typeB.In(i).Size() {', '\t\tif typeA.In(i).Size() != typeB.In(i).Size() && i == 0 {')],
 'C13-apply-before-signature-check': [('mocker.go', 'func (m *DefMocker) Apply(callback interface{}) {\n\tm.doApply(callback)\n\tm.when = nil', 'func (m *DefMocker) Apply(callback interface{}) {\n\tm.when = nil\n\tm.doApply(callback)')],
 # equivalent: the value-count check in I2V rejects the same call one step later
 'neg-C13-too-few-returns-accepted': [('when.go', '\tif returns != nil && len(returns) < impTyp.NumOut() {', '\tif returns != nil && len(returns) < impTyp.NumOut()-1 {')],
 # ---------------- C14
 'C14-mprotect-first-page-only': [('internal/bytecode/memory/mwrite_unix.go', '\tfor p := PageStart(addr); p < addr+uintptr(length); p += uintptr(pageSize) {', '\tfor p := PageStart(addr); p < addr+uintptr(length) && p == PageStart(addr); p += uintptr(pageSize) {')],
 'C14-pages-left-rwx': [('internal/bytecode/memory/mwrite_amd64.go', '\tif err := mProtectCrossPage(addr, len(data), syscall.PROT_READ|syscall.PROT_EXEC); err != nil {', '\tif err := mProtectCrossPage(addr, len(data)/2, syscall.PROT_READ|syscall.PROT_EXEC); err != nil {')],
 'C14-copy-one-byte-more': [('internal/bytecode/memory/mwrite_amd64.go', '\tf := RawAccess(addr, len(data))', '\tf := RawAccess(addr, len(data)+1)'), ('internal/bytecode/memory/mwrite_amd64.go', '\tcopy(f, data[:])\n\tsimhook', '\tcopy(f, append(data[:len(data):len(data)], 0x90))\n\tsimhook')],
 # ---------------- C19
 'C19-debug-wrapper-drops-last-result': [('debug.go', '\t\t\t\tresults = reflect.ValueOf(originImp).Call(params)\n\t\t\t}', '\t\t\t\tresults = reflect.ValueOf(originImp).Call(params)\n\t\t\t}\n\t\t\tif n := len(results); n > 1 {\n\t\t\t\tresults[n-1] = reflect.Zero(results[n-1].Type())\n\t\t\t}')],
 'C19-sprintv-derefs-nil': [('arg/value.go', '\t\tif (a.Kind() == reflect.Interface || a.Kind() == reflect.Ptr) && isZero(a) {\n\t\t\ts = append(s, "nil")', '\t\tif a.Kind() == reflect.Interface && isZero(a) {\n\t\t\ts = append(s, "nil")\n\t\t} else if a.Kind() == reflect.Ptr {\n\t\t\ts = append(s, fmt.Sprintf("%v", a.Elem().Interface()))')],
 'C19-variadic-wrapper-uses-call': [('debug.go', '\t\t\tif impType.IsVariadic() {\n\t\t\t\tresults = reflect.ValueOf(originImp).CallSlice(params)', '\t\t\tif impType.IsVariadic() && len(params) > 2 {\n\t\t\t\tresults = reflect.ValueOf(originImp).CallSlice(params)')],
 # ---------------- C20
 'C20-returns-loaded-offset-again': [('internal/bytecode/stub/holder.go', '\tplaceholder = newOffset - uintptr(len)\n', '')],
 'C20-bound-check-after-handout': [('internal/bytecode/stub/holder.go', '\tif newOffset > placeHolderIns.max {', '\tif newOffset > placeHolderIns.max+64 {'), ('internal/bytecode/stub/holder.go', '\tif placeholder+uintptr(len) > placeHolderIns.max {', '\tif placeholder+uintptr(len) > placeHolderIns.max+64 {')],
 'C13-returns-applied-before-validation': [('mocker.go', '\t// 先校验并填充返回值, 校验失败时 mocker 保持原状\n\twhen.Returns(values...)\n\tif err := m.whens(when); err != nil {\n\t\tpanic(err)\n\t}\n\tm.doApply(m.imp)\n\treturn when\n}\n\n// Origin 调用原函数\n// origin 需要和原函数的参数列表保持一致', '\tif err := m.whens(when); err != nil {\n\t\tpanic(err)\n\t}\n\tm.doApply(m.imp)\n\treturn when.Returns(values...)\n}\n\n// Origin 调用原函数\n// origin 需要和原函数的参数列表保持一致')],
 'C02-cancel-idempotency-guard': [('mocker.go', 'func (m *baseMocker) Cancel() {\n\tif m.guard != nil {', 'func (m *baseMocker) Cancel() {\n\tif m.canceled {\n\t\treturn\n\t}\n\tif m.guard != nil {')],
 'C08-nil-original-recaptured': [('var.go', '\tif !m.originSaved {\n\t\tm.originValue', '\tif m.originValue == nil {\n\t\tm.originValue')],
 'C20-bound-check-on-start': [('internal/bytecode/stub/holder.go', '\tif newOffset > placeHolderIns.max {', '\tif newOffset-uintptr(len) > placeHolderIns.max {')],
 'C14-page-loop-stops-early': [('internal/bytecode/memory/mwrite_unix.go', 'p < addr+uintptr(length); p += uintptr(pageSize) {', 'p < addr+uintptr(length)-1; p += uintptr(pageSize) {')],
 'C07-interface-cache-by-type-again': [('builder.go', '\t\tmKey = fmt.Sprintf("%s@%d", mKey, v.Pointer())\n', '\t\t_ = v\n')],
 'C06-struct-cache-by-elem-type': [('builder.go', '\tmKey := reflect.ValueOf(instance).Type().String()\n', '\tmKey := strings.TrimPrefix(reflect.ValueOf(instance).Type().String(), "*")\n')],
 'C10-lookupsym-prefix': [('internal/unexports2/symbols.go', '\t\tif s.Name == name {', '\t\tif strings.HasPrefix(s.Name, name) && len(name) > 8 {'), ('internal/unexports2/symbols.go', 'import (\n\t"debug/gosym"\n\t"fmt"\n)', 'import (\n\t"debug/gosym"\n\t"fmt"\n\t"strings"\n)')],
 # ---------------- negative controls: property-preserving edits, every check must stay silent
 'neg-C14+C02-jump-fits-exactly': [('internal/patch/jumpdata.go', '\tif len(jumpData) >= funcSize {', '\tif len(jumpData) > funcSize {')],
 'neg-C11+C02-patcheslock-rwmutex': [('internal/patch/patch.go', '\tpatchesLock = sync.Mutex{}', '\tpatchesLock = sync.RWMutex{}')],
 'neg-C07-stub-size-64': [('internal/iface/make_method.go', 'const interfaceJumpDataLen = 48', 'const interfaceJumpDataLen = 64')],
 'neg-C07-max-method-512': [('internal/hack/iface.go', '\tMaxMethod = 999', '\tMaxMethod = 512')],
 'neg-C12+C01-builder-capacity': [('builder.go', '\t\tmockers: make(map[interface{}]Mocker, 30),\n\t}\n}\n\n// Create', '\t\tmockers: make(map[interface{}]Mocker, 3),\n\t}\n}\n\n// Create')],
 'neg-C14+C05-rawread-longer-copy': [('internal/bytecode/memory/memory.go', '\tdata := RawAccess(addr, length)\n\tduplicate := make([]byte, length)\n\tcopy(duplicate, data)\n\treturn duplicate', '\tdata := RawAccess(addr, length)\n\tduplicate := make([]byte, length+8)\n\tcopy(duplicate, data)\n\treturn duplicate[:length]')],
 'neg-C19+C13-log-statements-removed': [('internal/patch/jumpdata.go', '\tlogger.Infof("starting genJumpData func origin=0x%x replacementInAddr=0x%x replacementCode=0x%x ...",\n\t\torigin, replacementInAddr, replacementCode)\n', '')],
}

def main():
    only = sys.argv[1] if len(sys.argv) > 1 else None
    os.makedirs(OUT, exist_ok=True)
    tmp = tempfile.mkdtemp(prefix='mutgen-', dir='/tmp')
    try:
        subprocess.check_call(['git', '-C', '/repo', 'worktree', 'add', '--detach', '-q', tmp, 'HEAD'])
        for name, edits in M.items():
            if only and only not in name:
                continue
            subprocess.check_call(['git', '-C', tmp, 'checkout', '-q', '--', '.'])
            ok = True
            for f, old, new in edits:
                p = os.path.join(tmp, f)
                s = open(p).read()
                if s.count(old) != 1:
                    print('MUTANT %s: pattern occurs %d times in %s' % (name, s.count(old), f))
                    ok = False
                    break
                open(p, 'w').write(s.replace(old, new))
            if not ok:
                continue
            r = subprocess.run(['go', 'build', '-tags', 'verif', './...'], cwd=tmp, capture_output=True, text=True,
                               env=dict(os.environ, GOFLAGS='-mod=mod', GOPROXY='off', GOSUMDB='off', GOTOOLCHAIN='local'))
            if r.returncode != 0:
                print('MUTANT %s does not compile:\n%s' % (name, r.stderr[:600]))
                continue
            d = subprocess.check_output(['git', '-C', tmp, 'diff']).decode()
            open(os.path.join(OUT, name + '.diff'), 'w').write(d)
            print('ok', name)
    finally:
        subprocess.call(['git', '-C', '/repo', 'worktree', 'remove', '--force', tmp])
        shutil.rmtree(tmp, ignore_errors=True)

if __name__ == '__main__':
    main()
