#!/bin/bash
# Runs the owning quick check against seeded changes. Each patch is applied to a scratch worktree
# of /repo HEAD under /tmp and the check is pointed at it with VERIF_REPO (temporary -modfile), so
# /repo itself is never modified and other checks may run at the same time. (Equivalent to
# `git -C /repo apply <patch>; ./bin/vcheck <id>; git -C /repo checkout -- .`.)
# usage: eval_seeded.sh [id...] ; id = directory name under /verif/seeded (C02, C02b, ...)
ids="$@"; [ -z "$ids" ] && ids=$(ls /verif/seeded)
for id in $ids; do
  d=/verif/seeded/$id; prop=${id:0:3}; T=$(mktemp -d /tmp/evalseed-XXXXXX); rmdir $T
  git -C /repo worktree add --detach -q $T HEAD || { echo "$id: worktree failed"; continue; }
  if ! git -C $T apply $d/patch.diff; then echo "$id: PATCH DOES NOT APPLY"; git -C /repo worktree remove --force $T; continue; fi
  E=$(mktemp -d /tmp/evalseed-ev-XXXXXX)
  out=$(cd /verif && VERIF_SEED=${VERIF_SEED:-1} VERIF_REPO=$T VERIF_EVIDENCE_DIR=$E ./bin/vcheck $prop --tier quick 2>&1); rc=$?
  git -C /repo worktree remove --force $T; rm -rf $T $E
  if echo "$out" | grep -q "VIOLATION property=$prop" && [ $rc -eq 1 ]; then
    echo "$id: CAUGHT  $(echo "$out" | grep -m1 '^violation class' | cut -c1-170)"
  else
    echo "$id: MISSED (exit $rc) $(echo "$out" | grep -m1 'HARNESS\|harness' | cut -c1-120)"
  fi
  echo "$out" > /verif/out/eval-$id.log
done
