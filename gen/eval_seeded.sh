#!/bin/bash
# Runs the owning quick check against every seeded change: apply to /repo, run, revert.
# usage: eval_seeded.sh [id...] ; prints CAUGHT / MISSED per id. Never leaves /repo modified.
ids="$@"; [ -z "$ids" ] && ids=$(ls /verif/seeded)
for id in $ids; do
  d=/verif/seeded/$id
  git -C /repo diff --quiet || { echo "/repo is dirty, refusing"; exit 2; }
  git -C /repo apply $d/patch.diff || { echo "$id: PATCH DOES NOT APPLY"; continue; }
  prop=${id:0:3}; out=$(cd /verif && VERIF_SEED=${VERIF_SEED:-1} ./bin/vcheck $prop --tier quick 2>&1); rc=$?
  git -C /repo checkout -- .
  if echo "$out" | grep -q "VIOLATION property=$prop" && [ $rc -eq 1 ]; then
    echo "$id: CAUGHT  $(echo "$out" | grep -m1 '^violation class' | cut -c1-160)"
  else
    echo "$id: MISSED (exit $rc) $(echo "$out" | grep -m1 'HARNESS\|harness' | cut -c1-120)"
  fi
  echo "$out" > /verif/out/eval-$id.log
done
