#!/usr/bin/env python3
"""Writes /verif/MANIFEST.json from the table below (kept in one place so that it stays valid)."""
import json, os, subprocess

ROOT = os.path.dirname(os.path.dirname(os.path.abspath(__file__)))

CLAIMED = {
 # id: (level category, level text, level note, technique, design_ref)
 'C01': ('exploration', 'Seeded histories (apply / stub / cancel / reset / call in six call forms) over an enumerated signature zoo (59 functions covering the register- and stack-passed ABI classes) run under the deterministic scheduler with GC (clobberfree + heap churn), stack-growth and builder-dropped events fired at goom hook points; every call is compared with a recorder (exact argument words, identity for reference kinds) and a reference model. Sampling, not proof: the signature axis is enumerated, history x event timing is searched.', 'Trusted: the generated zoo and thunks, reflect-based value generator/comparator, the hook placement (events can only fire at hooks and between operations).', 'deterministic simulation: seeded history + GC/stack-growth event injection, reference-model oracle', 'DESIGN.md §7 C01'),
 'C02': ('exploration', 'Same world with the text-image oracle (full .text diff against a pristine snapshot, entry must hold a complete jump to a live function value) and the /proc/self/maps page oracle after EVERY step, 1-3 builders with clean hand-offs, double resets, re-mock after reset, final image == pristine.', 'Trusted: ELF symbol table of the child binary for region extents; histories where the statement is silent (two live builders on one target) are not generated.', 'deterministic simulation: seeded operation histories with image/page invariants after every step', 'DESIGN.md §7 C02'),
 'C03': ('exploration', 'Relocated code is EXECUTED, not decoded. (1) Go zoo functions mocked with an origin-calling callback are called on fresh goroutines below a filler recursion of seeded depth (1..500 frames x 4 fine offsets; every 40th seed sweeps all depths for one target) so that the stack check copied into the trampoline meets every headroom, with GC events between apply and call; result and side-effect digest must equal the un-mocked function, the callback must run exactly once. (2) An 11-shape hand-written assembly zoo whose first instructions are the cases the relocation arithmetic distinguishes (rel8 JE/JBE/JG/JMP beyond the copied prefix, rel8 opcodes without a long form, a loop branching back into the first 13 bytes, RIP-relative MOV/LEA/CMP/store-immediate with and without trailing immediates, CALL in the prefix) patched through patch.PtrTrampoline with placeholders linked before and after the targets, executed for 5 inputs so that both sides of every relocated branch run; a refusal must leave function and placeholder byte-identical.', 'Limit of the claim: prologue coverage is what the two zoos contain; the full-binary static sweep with an independent decoder named in the property text is translation validation, not simulation, and is not built (x/arch is not in the module cache). Open known finding S1 is tolerated by a narrow predicate.', 'deterministic simulation: stack-headroom sweep and GC events around origin calls, crafted-prologue zoo executed through the trampoline', 'DESIGN.md §7 C03'),
 'C04': ('exploration', 'Stub configuration histories (default first, then When / In clauses built from plain values, Any and In expressions; calls interleaved with configuration) on zoo targets including variadics with 0-2 leading fixed parameters, compared call by call (real calls in three call forms and When.Eval) with a reference interpreter of the documented rule: ordered clauses, first match, default, else a "no suitable condition" panic. Unique result ids make every answer attributable to one (clause, position).', 'Trusted: small matchable value domains (ints, strings, bools, all-int structs, ints inside interface{}); cross-kind equality belongs to C18; nested arg.In inside In(...) alternatives and Eval on variadic targets are not generated (not documented forms).', 'deterministic simulation: seeded configuration/call histories vs executable reference interpreter', 'DESIGN.md §7 C04+C05'),
 'C05': ('exploration', 'Same world with result sequences of length 1-6 on the default and on clauses (Return+AndReturn and Returns forms); sequential part compared position by position with the reference; concurrent part = 2-4 caller tasks under the seeded scheduler with preemption between the cursor load and add (hook matcher.result.loaded), recorded invoke/return event numbers checked with porcupine against the relaxed sequence model (positions in range, never backwards) plus the pairwise criterion, and the same plans under the race-detector build whose only cross-task happens-before edges are goom\'s own.', 'Trusted: porcupine v1.3.0; histories are capped at 64 operations per clause; Unknown (timeout) is never reported.', 'deterministic simulation: seeded interleavings of concurrent callers, porcupine linearizability check of the recorded history, race detector on serialised execution', 'DESIGN.md §7 C04+C05'),
 'C07': ('exploration', 'Histories of interface-variable mocks over an interface zoo (1-6 methods, unsorted declaration order, unexported and embedded methods, three variables per type some pre-loaded): Apply and As().Return per method in any subset/order, every method called through the variable (mocked slot -> its own replacement with exact arguments, un-mocked slot -> "method not implements" panic), other variables untouched, variable non-nil, builder dropped, Reset restores the two interface words; GC events (clobberfree + churn) fire at every yield including between two method mocks.', 'Trusted: one builder per variable and history; a second bare Return on the same method in one stub epoch is not generated.', 'deterministic simulation: seeded histories with GC-event injection at hook points, reference model + crash oracle', 'DESIGN.md §7 C07'),
 'C08': ('exploration', 'Set / Apply / Cancel / Reset histories (0..n Sets, double resets, lookups without Set) over a 27-variable zoo of every kind (exported by pointer, unexported by package.name) with GC events between and inside steps; after every step the variable is read directly and through an accessor compiled in its package and compared (identity for reference kinds) with the model "first pre-mock value per builder".', 'Trusted: a variable is handled by one builder per history (two builders on one variable are outside the statement); Set(untyped nil) and values of another type on unexported variables are not generated (documented as undefined).', 'deterministic simulation: seeded histories with GC events vs reference model', 'DESIGN.md §7 C08'),
 'C10': ('fault_enumeration', 'Every run starts from a fresh load of the symbol tables (ResetForVerif). The executable is read through the reader seam: a clean load makes 8-15 ReadAt calls; for call indices 0..15 x {EIO, truncation at that offset, zero-filled data} exactly one read is failed (directive mode) and in multi-task cases 1-4 tasks race into first use under the scheduler with the fault armed. Lookups cover every uniquely named function of the binary (consecutive 100-name blocks across seeds), zoo variables, absent and near-miss names. Truth is independent of goom\'s gosym path: function entries from runtime.FuncForPC scanned over .text, variable addresses from &var. Outcome must be the true address or an error / documented panic, never another address, also for every later lookup after a failed load. Three link modes: default, -buildmode=pie, -ldflags=-s (for the latter two the statement allows an error for every lookup); race build on the same plans.', 'Trusted: runtime.FuncForPC as the address oracle; names shared by an ABI wrapper and its body accept either entry.', 'deterministic simulation: enumeration of read-fault points on the symbol source x seeded interleavings of concurrent first use', 'DESIGN.md §7 C10'),
 'C11': ('exploration', 'The core use of the scheduler: 2-4 mocker tasks (own builder, pairwise disjoint targets) and 1-3 caller tasks on steadily mocked functions (callbacks, origin-calling callbacks, stubs) taken from an address-adjacent window of the zoo so that they share code pages. Seeded preemption at every hook site (inside replaceFunc, between mprotect RWX / copy / mprotect RX, at every lock hand-over of the modelled patches/mem/funcsize locks), GC and stack-growth events at the same points. Oracles: the race-detector build of the same plans (the baton is invisible to the detector, so only goom\'s own synchronisation orders tasks), crash and sim-deadlock, every steady call returns its mocked result with one callback invocation, each mocker\'s targets follow its own model after each of its operations, the full text image differs from pristine only at entries some task owns (complete jump or pristine, never a mixture), pages keep x while a writer is parked mid-write, and at quiescence the image is pristine again.', 'Trusted: hook placement (a deleted hook line removes a preemption point, the race and end-of-operation oracles still run); serialised execution cannot show multi-core effects of cross-modifying code; callers only touch steady targets as the statement requires.', 'deterministic simulation: seeded scheduler over real goroutines (futex baton), modelled locks, race detector on serialised execution, image/page invariants at every step', 'DESIGN.md §7 C11'),
 'C12': ('exploration', 'Lookup/instruction histories (fresh lookups only) against a last-writer-wins model, behaviour checked by calling the target after every step.', 'Trusted: the grammar of Appendix F (stale handles kept across Apply are not generated).', 'deterministic simulation: seeded histories vs last-writer-wins reference model', 'DESIGN.md §7 C12'),
 'C13': ('exploration', 'Well-formed histories with eleven classes of ill-formed configuration calls spliced in at seeded positions (on un-mocked and on mocked targets); each must panic/err (typed cause chain walked), change no text byte, and leave the model state intact for the rest of the history.', 'Trusted: the classes of mistakes are the ones the statement lists; When(..).Return(bad) chains are not generated because the When half is a valid call that patches.', 'deterministic simulation: fault = rejected operation inside a history, "nothing changed" image oracle', 'DESIGN.md §7 C13'),
 'C14': ('exploration', 'Three configurations. Arena: 1-2 writer tasks call memory.WriteTo with seeded offset / length 1..9000 into a 6-page assembly arena of callable MOV $k,AX; RET cells (small, page-straddling, multi-page and 13-byte writes) while 1-2 caller tasks that the scheduler runs at mem.write.rwx / mem.write.copied execute cells on the pages being written; oracle: live arena == byte model (data landed exactly, nothing else moved), full .text diff confined to the arena, every executed cell returns its old or in-flight value, /proc/self/maps keeps x mid-write and shows r-x (no w) afterwards. Faults: errno injected at the mprotect seam on seeded calls; then only all-old-or-all-new and no stray byte are asserted (goom\'s documented fallback drops x when RWX is denied). Sweep: patch.Ptr + Apply + Unpatch on ~1700 real compiler-emitted functions of linked-but-never-executed library packages and the zoo, full image diff and page check around every write, jump confined to [entry, entry+13) and to the function\'s own extent.', 'Trusted: ELF symbol table for extents; functions are 32-byte aligned by the linker so an entry is never closer than 32 bytes to a page end (measured by a probe); the per-function sweep is enumeration of the workload axis, mid-write observation and concurrent execution are the simulated part.', 'deterministic simulation: seeded writers/callers interleaved at mid-write hook points, errno injection at the mprotect seam, byte-model and page-table oracles', 'DESIGN.md §7 C14'),
 'C20': ('fault_enumeration', 'One OS process per plan (the bump pointer is process-global and monotone): 1-4 requester tasks call stub.Acquire + stub.Write + execute with seeded sizes (0, 1-256, page+-1, 2^48, x8 until the reserve is exhausted); the mmap seam fails always / never / on a seeded half of the calls (EACCES, ENOMEM) so both allocators and their mixture run; the scheduler preempts between the load and the add of the bump pointer. A reference allocator (interval set) checks: size >= requested, pairwise disjoint from everything handed out before, reserve regions inside the reserve bounds, writable through stub.Write, executable (a MOV $k,AX; RET stub is written, called, and called again at the end to detect clobbering), exhaustion reported as an error, no text byte outside the reserve changed; race-detector build on the same plans.', 'Trusted: HolderBounds() export (verif tag) for the reserve bounds; negative sizes are not requests.', 'deterministic simulation: errno injection at the mmap seam x seeded interleavings at the allocator, interval-set reference model', 'DESIGN.md §7 C20'),
}

NOT_APPLICABLE = {
 'C09': 'pure function of (declared type, supplied value): no schedule, fault, clock or history enters the statement; deciding it is input enumeration, which this technique family must not dress up as simulation (DESIGN.md §8)',
 'C15': 'pure function of (from, to) addresses; the arm64/386 emitters do not even compile into an amd64 simulator binary (DESIGN.md §8)',
 'C16': 'the x86 decoder is a pure function bytes -> instruction; needs differential decoding against an independent decoder (not in the module cache), not simulation (DESIGN.md §8)',
 'C17': 'the arm64 decoder is a pure function on 2^32 words; exhaustive enumeration, not simulation (DESIGN.md §8)',
 'C18': 'Equals/In/Any are stateless predicates over value pairs; no history, schedule or fault to simulate (DESIGN.md §8)',
}

PENDING = {
 # properties the design claims but whose world is not built yet: listed as not claimed until it is
}

ALL = ['C%02d' % i for i in range(1, 21)]

def main():
    checks = []
    for pid in ALL:
        if pid in CLAIMED:
            cat, text, note, tech, ref = CLAIMED[pid]
            checks.append({
                'property_id': pid,
                'quick_cmd': './bin/vcheck %s --tier quick' % pid,
                'thorough_cmd': './bin/vcheck %s --tier thorough' % pid,
                'evidence_file': '/verif/evidence/%s.json' % pid,
                'replay_cmd_template': './bin/vcheck %s --replay {path}' % pid,
                'engine': 'goom-sim',
                'level_claimed': {'category': cat, 'text': text, 'design_ref': ref},
                'level_note': note,
                'technique': tech,
            })
    na = []
    for pid in ALL:
        if pid in CLAIMED:
            continue
        if pid in NOT_APPLICABLE:
            na.append({'property_id': pid, 'reason': NOT_APPLICABLE[pid]})
        else:
            na.append({'property_id': pid, 'reason': PENDING.get(pid, 'not claimed yet: the simulated world for this property is designed (DESIGN.md §7) but not built; no check is registered until it runs clean')})
    commits = subprocess.check_output(['git', '-C', '/repo', 'log', '--format=%H %s']).decode().splitlines()
    hook_commits = [c.split()[0] for c in commits if ' verif:' in c]
    m = {
        'version': 1,
        'setup_cmd': 'cd /verif/cmd/vcheck && GOFLAGS=-mod=mod GOPROXY=off GOSUMDB=off GOTOOLCHAIN=local go build -o /verif/bin/vcheck .',
        'hooks': {
            'guard': 'verif',
            'enable': 'go build -tags verif (the check builds /verif/sim/cmd/simnode, module github.com/tencent/goom/verifsim with replace github.com/tencent/goom => /repo, from the current working tree on every run)',
            'baseline_off_cmd': '/verif/bin/baseline_off.sh',
            'source_commits': hook_commits,
            'add_only': True,
        },
        'engines': [{
            'name': 'goom-sim',
            'path': '/verif/sim',
            'serves_properties': sorted(CLAIMED),
            'kind_free_text': 'deterministic simulation with fault injection: real goom + Go runtime + kernel, seeded cooperative scheduler (futex baton invisible to the race detector), GC / stack / errno / read-fault events at build-tag-guarded seams, reference-model and image oracles, parent-side delta-debugging and replay files',
        }],
        'checks': checks,
        'not_applicable': na,
        'notes': 'Exit codes: 0 held, 1 VIOLATION line printed, 2 build/harness/watchdog trouble (never a VIOLATION). VERIF_SEED selects the seed block (base = VERIF_SEED*1e9). Known findings: /verif/known_findings.json.',
    }
    with open(os.path.join(ROOT, 'MANIFEST.json'), 'w') as f:
        json.dump(m, f, indent=1)
        f.write('\n')

if __name__ == '__main__':
    main()
