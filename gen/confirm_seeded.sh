#!/bin/bash
# Confirms every /verif/seeded/<id>: in a scratch worktree of /repo HEAD the demonstration passes
# without the patch and fails with it, and the existing suite keeps its 45 stable passes with it.
# usage: confirm_seeded.sh [id...]   -> writes /verif/seeded/<id>/confirm.txt
export GOFLAGS=-mod=mod GOPROXY=off GOSUMDB=off GOTOOLCHAIN=local
ids="$@"; [ -z "$ids" ] && ids=$(ls /verif/seeded)
for id in $ids; do
  d=/verif/seeded/$id; T=/tmp/conf-$id
  git -C /repo worktree remove --force $T 2>/dev/null; rm -rf $T
  git -C /repo worktree add --detach -q $T HEAD || { echo "$id: worktree failed"; continue; }
  mkdir -p $T/_seeded && cp -r $d/demo $T/_seeded/
  tags=""; grep -rqs "simhook\|verif" $d/demo/*.go && grep -rqs "go:build verif\|+build verif" $d/demo/*.go && tags="-tags verif"
  grep -qs "\-tags verif" $d/notes.md && tags="-tags verif"
  ld=""; grep -qs "ldflags=-s=false" $d/notes.md && ld="-ldflags=-s=false"
  ( cd $T
    echo "== $id: demo WITHOUT the change (expected: pass)"
    go test $tags $ld -gcflags=all=-l -count=1 ./_seeded/demo/... 2>&1 | tail -3
    r0=${PIPESTATUS[0]}
    git apply $d/patch.diff || echo "PATCH DOES NOT APPLY"
    echo "== $id: go build with the change"; go build ./... && echo build-ok
    echo "== $id: demo WITH the change (expected: FAIL)"
    go test $tags $ld -gcflags=all=-l -count=1 ./_seeded/demo/... 2>&1 | tail -4
    r1=${PIPESTATUS[0]}
    echo "== $id: existing suite with the change"
    go test -json -vet=off -count=1 -timeout 25m ./... > $T/_after.json 2>/dev/null
    python3 - $T/_after.json <<'P'
import json,sys
ok=set()
for l in open(sys.argv[1]):
    try: e=json.loads(l)
    except Exception: continue
    if e.get('Test') and e.get('Action')=='pass': ok.add(e['Package']+'::'+e['Test'])
b=json.load(open('/root/.vp/BASELINE.json'))
miss=sorted(set(b['stable_pass'])-ok)
print('stable passes kept: %d/45'%(45-len(miss)), 'MISSING %s'%miss if miss else '')
P
    echo "RESULT $id without=$r0 with=$r1"
  ) > $d/confirm.txt 2>&1
  git -C /repo worktree remove --force $T; rm -rf $T
  tail -1 $d/confirm.txt; grep "stable passes" $d/confirm.txt
done
