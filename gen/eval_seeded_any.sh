#!/bin/bash
# For seeded changes whose author chose the code site freely (wave 5, directories X01..): runs the
# quick check of the property named in the first line of notes.md ("PROPERTY: Cxx") against the
# change, and if that check stays silent, every other registered quick check, until one reports a
# VIOLATION. Same isolation as eval_seeded.sh (scratch worktree of /repo HEAD + VERIF_REPO).
# usage: eval_seeded_any.sh id...
for id in "$@"; do
  d=/verif/seeded/$id
  first=$(head -1 $d/notes.md | sed -n 's/^PROPERTY: *\(C[0-9][0-9]\).*/\1/p')
  order="$first $(jq -r '.checks[].property_id' /verif/MANIFEST.json | grep -v "^$first$")"
  T=$(mktemp -d /tmp/evalseed-XXXXXX); rmdir $T
  git -C /repo worktree add --detach -q $T HEAD || { echo "$id: worktree failed"; continue; }
  if ! git -C $T apply $d/patch.diff; then echo "$id: PATCH DOES NOT APPLY"; git -C /repo worktree remove --force $T; continue; fi
  res="MISSED by every check"
  : > /verif/out/eval-$id.log
  for prop in $order; do
    E=$(mktemp -d /tmp/evalseed-ev-XXXXXX)
    out=$(cd /verif && VERIF_SEED=${VERIF_SEED:-1} VERIF_REPO=$T VERIF_EVIDENCE_DIR=$E ./bin/vcheck $prop --tier quick 2>&1); rc=$?
    rm -rf $E
    echo "=== $prop exit=$rc" >> /verif/out/eval-$id.log; echo "$out" >> /verif/out/eval-$id.log
    if echo "$out" | grep -q "VIOLATION property=$prop" && [ $rc -eq 1 ]; then
      res="CAUGHT by $prop (author named ${first:-none}): $(echo "$out" | grep -m1 '^violation class' | cut -c1-170)"
      break
    fi
    echo "$id: $prop silent (exit $rc)"
  done
  git -C /repo worktree remove --force $T; rm -rf $T
  echo "$id: $res"
done
