#!/bin/bash
# Runs every registered quick check on the current /repo tree; prints one line per property.
cd /verif
fail=0
for p in $(jq -r '.checks[].property_id' MANIFEST.json); do
  out=$(VERIF_SEED=${VERIF_SEED:-1} ./bin/vcheck $p --tier quick 2>&1); rc=$?
  line=$(echo "$out" | grep "^vcheck: $p quick" | tail -1)
  kf=$(echo "$out" | grep -c "^KNOWN-FINDING")
  echo "$p exit=$rc known=$kf  ${line#vcheck: }"
  [ $rc -ne 0 ] && { fail=1; echo "$out" | grep -E "^violation class|VIOLATION|HARNESS|harness" | head -5; }
done
exit $fail
